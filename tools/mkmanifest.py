#!/usr/bin/env python3
"""Regenerate MANIFEST.json from vlib/registry.py (run with any python3; validates against the schema if jsonschema is present)."""
import json, os, sys
sys.path.insert(0, os.path.dirname(os.path.dirname(os.path.abspath(__file__))))
from vlib import registry

ALL = ["C%02d" % i for i in range(1, 21)]
LEVEL_TEXT = {
    "exploration": "held on K observed executions of the real parser+scheduler under runtime monitors, with independent oracles computed from the generator's model; reach comes from workload diversity (counts and distinct signatures are in the evidence file)",
    "fault_enumeration": "enumerates input/fault classes against the real code in isolated processes under monitors; held on the executions observed",
}
checks = []
for pid in ALL:
    cfg = registry.REG.get(pid)
    if not cfg:
        continue
    checks.append({
        "property_id": pid,
        "quick_cmd": "./check %s --tier quick" % pid,
        "thorough_cmd": "./check %s --tier thorough" % pid,
        "evidence_file": "evidence/%s.json" % pid,
        "replay_cmd_template": "./check %s --replay {path}" % pid,
        "engine": cfg.get("engine", "monitored-real-code"),
        "level_claimed": {"category": cfg["level"], "text": cfg.get("level_text") or LEVEL_TEXT[cfg["level"]], "design_ref": "DESIGN.md section 4/%s" % pid},
        "level_note": cfg.get("level_note") or "; ".join(cfg.get("assumptions", [])),
        "technique": cfg.get("technique", "runtime monitoring: wrapped real methods + offline oracle over the event log / outputs"),
    })
na = [{"property_id": p, "reason": registry.NOT_APPLICABLE.get(p, "check not built yet in this phase (planned, see DESIGN.md section 4)")} for p in ALL if p not in registry.REG]
man = {
    "version": 1,
    "setup_cmd": "/venv/bin/python -m vlib.setup",
    "hooks": {
        "guard": "SCRIPTPLAN_VERIF",
        "enable": "no source hooks: monitors wrap the real classes at import time inside the worker processes (PYTHONPATH=/repo); the guard name is reserved",
        "baseline_off_cmd": "cd /repo && /venv/bin/python -m pytest -ra -q -p no:cacheprovider --timeout=900 --continue-on-collection-errors",
        "source_commits": [],
        "add_only": True,
    },
    "engines": [
        {"name": "monitored-real-code", "path": "vlib/", "serves_properties": [c["property_id"] for c in checks],
         "kind_free_text": "workers import the real scriptplan from /repo, wrap its methods with recording monitors, run generated workloads, and decide with offline oracles over event logs and outputs"},
    ],
    "checks": checks,
    "not_applicable": na,
    "notes": "All checks: exit 0 = held on what was observed; exit 1 + VIOLATION line = new violation; exit 2 = inconclusive (no VIOLATION line). known_findings.json lists mechanised known findings and fixed defects.",
}
path = os.path.join(os.path.dirname(os.path.dirname(os.path.abspath(__file__))), "MANIFEST.json")
json.dump(man, open(path, "w"), indent=1)
try:
    import jsonschema
    jsonschema.validate(man, json.load(open("/root/.vp/MANIFEST.schema.json")))
    print("MANIFEST.json valid,", len(checks), "checks,", len(na), "not applicable")
except ImportError:
    print("written (jsonschema not available for validation)")
