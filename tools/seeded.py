#!/usr/bin/env python3
"""Confirm a sub-agent's breaking change and run our checks against it.

  tools/seeded.py confirm <name> <worktree> <property>   # demo fails with / passes without, suite passes with; copies into seeded/<name>/
  tools/seeded.py run <name> <check> [<check> ...]        # git apply to /repo, run the quick checks, git checkout -- . ; records results in meta.json
"""
import json, os, shutil, subprocess, sys, time
V = os.path.dirname(os.path.dirname(os.path.abspath(__file__)))
PY = "/venv/bin/python"


def sh(cmd, cwd=None, env=None, timeout=3600):
    r = subprocess.run(cmd, shell=True, cwd=cwd, env=env, capture_output=True, text=True, timeout=timeout)
    return r.returncode, (r.stdout + r.stderr)


def confirm(name, wt, prop):
    out = os.path.join(V, "seeded", name)
    os.makedirs(out, exist_ok=True)
    env = dict(os.environ, PYTHONPATH=wt, PYTHONDONTWRITEBYTECODE="1")
    rc, d = sh("git diff -- scriptplan", cwd=wt)
    assert d.strip(), "no change applied in worktree"
    open(os.path.join(out, "patch.diff"), "w").write(d)
    for f in ("demo.py", "NOTES.md"):
        if os.path.exists(os.path.join(wt, "_out", f)):
            shutil.copy(os.path.join(wt, "_out", f), os.path.join(out, f))
    res = {}
    rc1, o1 = sh("%s _out/demo.py" % PY, cwd=wt, env=env)
    res["demo_with_change"] = rc1
    rcs, os_ = sh("%s -m pytest -q -p no:cacheprovider -n 8 --timeout=900 2>&1 | tail -1" % PY, cwd=wt)
    res["suite_with_change"] = os_.strip()
    # worktrees of one repository share ONE stash stack (agents running in parallel raced on it): reverse-apply instead
    rcr, _ = sh("git apply -R %s" % os.path.join(out, "patch.diff"), cwd=wt)
    assert rcr == 0, "cannot reverse the change"
    rc0, o0 = sh("%s _out/demo.py" % PY, cwd=wt, env=env)
    res["demo_without_change"] = rc0
    rca, _ = sh("git apply %s" % os.path.join(out, "patch.diff"), cwd=wt)
    assert rca == 0, "cannot re-apply the change"
    ok = rc1 != 0 and rc0 == 0 and "383 passed" in os_
    meta = {"name": name, "property": prop, "confirmed": ok, "confirmation": res, "demo_output_with_change": o1[-600:],
            "needs_to_manifest": "", "checks_run": {}}
    mp = os.path.join(out, "meta.json")
    if os.path.exists(mp):
        old = json.load(open(mp))
        meta["needs_to_manifest"] = old.get("needs_to_manifest", "")
        meta["checks_run"] = old.get("checks_run", {})
    json.dump(meta, open(mp, "w"), indent=1)
    print(name, "confirmed" if ok else "NOT CONFIRMED", res)


def run(name, checks, tier="quick", worktree=None):
    """default: git apply the patch to /repo, run, revert.  worktree=<dir>: run against a scratch worktree that has
    the change applied (VERIF_REPO=<dir>) - used while other runs are reading /repo."""
    out = os.path.join(V, "seeded", name)
    patch = os.path.join(out, "patch.diff")
    meta = json.load(open(os.path.join(out, "meta.json")))
    if worktree:
        rc, o = sh("git diff --stat -- scriptplan", cwd=worktree)
        assert o.strip(), "worktree has no change applied"
    else:
        rc, o = sh("git -C /repo status --porcelain --untracked-files=no")
        assert not o.strip(), "/repo not clean: " + o
        rc, o = sh("git -C /repo apply %s" % patch)
        assert rc == 0, o
    try:
        for c in checks:
            t0 = time.time()
            env = dict(os.environ, VERIF_EVIDENCE_SCRATCH="1")
            if worktree:
                env["VERIF_REPO"] = worktree
            rc, o = sh("./check %s --tier %s" % (c, tier), cwd=V, env=env)
            lines = [l for l in o.splitlines() if l.startswith("   new violation class") or l.startswith("VIOLATION") or l.startswith("INCONCLUSIVE") or l.startswith("==")]
            meta["checks_run"][c + ":" + tier] = {"exit": rc, "caught": rc == 1, "wall_s": round(time.time() - t0, 1), "summary": lines[:6]}
            print(name, c, "exit", rc, "CAUGHT" if rc == 1 else ("inconclusive" if rc == 2 else "missed"), "%.0fs" % (time.time() - t0))
            for l in lines[:4]:
                print("    ", l[:200])
    finally:
        if not worktree:
            sh("git -C /repo checkout -- .")
        json.dump(meta, open(os.path.join(out, "meta.json"), "w"), indent=1)
    if not worktree:
        rc, o = sh("git -C /repo status --porcelain --untracked-files=no")
        assert not o.strip(), "/repo not clean after revert"


if __name__ == "__main__":
    if sys.argv[1] == "confirm":
        confirm(sys.argv[2], sys.argv[3], sys.argv[4])
    else:
        tier = "quick"
        args = sys.argv[3:]
        if "--thorough" in args:
            tier = "thorough"
            args.remove("--thorough")
        wt = None
        if "--worktree" in args:
            i = args.index("--worktree")
            wt = args[i + 1]
            del args[i:i + 2]
        run(sys.argv[2], args, tier, wt)
