#!/bin/sh
# run every check of a tier on /repo and print one summary line each:  tools/run_all.sh quick|thorough
cd "$(dirname "$0")/.." || exit 3
tier=${1:-quick}
for p in C01 C02 C03 C04 C05 C06 C07 C08 C09 C10 C11 C12 C13 C14 C15 C16 C17 C18 C19 C20; do
  s=$(date +%s)
  out=$(./check $p --tier $tier 2>&1); rc=$?
  e=$(date +%s)
  echo "$p rc=$rc $((e-s))s $(echo "$out" | grep -c '^KNOWN-FINDING') known $(echo "$out" | grep -c '^VIOLATION') viol :: $(echo "$out" | head -1)"
  [ $rc -ne 0 ] && echo "$out" | grep -v "^   counters\|^   monitors" | head -12
done
