#!/bin/sh
# tools/rebase_wt.sh <worktree>: move a sub-agent's worktree (with its uncommitted change) onto /repo's HEAD without git stash
wt=$1
git -C $wt diff -- scriptplan > /tmp/rebase_wt.$$.diff
git -C $wt checkout -q -- scriptplan
git -C $wt checkout -q --detach $(git -C /repo rev-parse HEAD)
git -C $wt apply --3way /tmp/rebase_wt.$$.diff && git -C $wt reset -q
rc=$?
rm -f /tmp/rebase_wt.$$.diff
exit $rc
