#!/usr/bin/env python3
"""Sensitivity probes: the breaking changes planned in DESIGN.md section 4 ("Mutants"), applied one at a time to a
scratch worktree of /repo (never to /repo itself) and run through the quick checks with VERIF_REPO=<worktree>.

  tools/selfmut.py [name-substring ...]     -> writes logs/selfmut.json and prints one line per (mutant, check)
"""
import json, os, subprocess, sys, time
V = os.path.dirname(os.path.dirname(os.path.abspath(__file__)))
WT = "/tmp/selfmut"
PY = "/venv/bin/python"

M = [
 # name, property, file, old, new, checks
 ("C01-no-available-test", "C01", "scriptplan/core/resource_scenario.py", "        if not force and not self.available(sb_idx):\n            return 0.0\n", "        if False and not force and not self.available(sb_idx):\n            return 0.0\n", ["C01"]),
 ("C01-ignore-prior-use", "C01", "scriptplan/core/resource_scenario.py", "        return float(max(0.0, slot_duration - seconds_used))", "        return float(slot_duration)", ["C01"]),
 ("C01-release-whole-slot", "C01", "scriptplan/core/task_scenario.py", "res_scenario.slotSecondsUsed[self.currentSlotIdx] = max(0.0, old_total - (secs - kept))", "res_scenario.slotSecondsUsed[self.currentSlotIdx] = max(0.0, old_total - slot_duration_seconds + kept)", ["C01", "C06"]),
 ("C01-no-team-alignment", "C01", "scriptplan/core/task_scenario.py", "            if common_used > 0:\n", "            if False and common_used > 0:\n", ["C01", "C03"]),
 ("C02-interval-end-inclusive", "C02", "scriptplan/core/working_hours.py", "                if start_minutes <= slot_minutes < end_minutes:\n                    return True", "                if start_minutes <= slot_minutes <= end_minutes:\n                    return True", ["C02", "C13"]),
 ("C02-ignore-timezone", "C02", "scriptplan/core/working_hours.py", "        if timezone:\n            dt = self._convert_to_timezone(dt, timezone)", "        if False and timezone:\n            dt = self._convert_to_timezone(dt, timezone)", ["C02"]),
 ("C02-skip-resource-leaves", "C02", "scriptplan/core/resource_scenario.py", "        leaves = self.property.get(\"leaves\", self.scenarioIdx)\n        if leaves:\n            for leave in leaves:\n                if hasattr(leave, \"interval\") and leave.interval and leave.interval.start <= date < leave.interval.end:", "        leaves = self.property.get(\"leaves\", self.scenarioIdx)\n        if leaves:\n            for leave in leaves:\n                if hasattr(leave, \"interval\") and leave.interval and leave.interval.start < date < leave.interval.end:", ["C02"]),
 ("C02-skip-global-vacations", "C02", "scriptplan/core/resource_scenario.py", "        vacations = self.project.attributes.get(\"vacations\", [])\n        if vacations:\n            for vac in vacations:", "        vacations = []\n        if vacations:\n            for vac in vacations:", ["C02"]),
 ("C03-stop-test-strict", "C03", "scriptplan/core/task_scenario.py", "            if self.doneEffort >= effort - 1e-9:", "            if self.doneEffort > effort + 1e-9:", ["C03"]),
 ("C03-credit-full-slot", "C03", "scriptplan/core/resource_scenario.py", "        effort_gained = (available_seconds / 3600.0) * efficiency", "        effort_gained = (self.project.attributes.get(\"scheduleGranularity\", 3600) / 3600.0) * efficiency", ["C03"]),
 ("C03-drop-efficiency", "C03", "scriptplan/core/resource_scenario.py", "        effort_gained = (available_seconds / 3600.0) * efficiency", "        effort_gained = (available_seconds / 3600.0)", ["C03"]),
 ("C03-team-effort-sum", "C03", "scriptplan/core/task_scenario.py", "                total_effort_this_slot = max(total_effort_this_slot, effort_gained)", "                total_effort_this_slot = total_effort_this_slot + effort_gained", ["C03"]),
 ("C04-drop-gap", "C04", "scriptplan/core/task_scenario.py", "                                dep_time = dep_time + timedelta(hours=gap_hours)\n                            elif gaplength:", "                                dep_time = dep_time\n                            elif gaplength:", ["C04"]),
 ("C04-pred-start-instead-of-end", "C04", "scriptplan/core/task_scenario.py", "dep_time = t.get(\"start\", self.scenarioIdx) if onstart else t.get(\"end\", self.scenarioIdx)", "dep_time = t.get(\"start\", self.scenarioIdx)", ["C04"]),
 ("C04-ready-too-early", "C04", "scriptplan/core/task_scenario.py", "            if t and not t.get(\"scheduled\", self.scenarioIdx):\n                return False\n\n        return True", "            if t and not t.get(\"scheduled\", self.scenarioIdx) and t.leaf():\n                return False\n\n        return True", ["C04", "C07"]),
 ("C05-limit-ok-le", "C05", "scriptplan/core/limits.py", "            if self.upper:\n                return count < self.value\n", "            if self.upper:\n                return count <= self.value\n", ["C05"]),
 ("C05-skip-parent-inc", "C05", "scriptplan/core/resource_scenario.py", "            if parent_limits and hasattr(parent_limits, \"inc\"):\n                parent_limits.inc(sb_idx)", "            if False and parent_limits and hasattr(parent_limits, \"inc\"):\n                parent_limits.inc(sb_idx)", ["C05"]),
 ("C05-seven-day-chunks", "C05", "scriptplan/core/limits.py", "            return (slot_monday - start_monday).days // 7", "            return (slot_datetime.date() - self.interval_start.date()).days // 7", ["C05", "C14"]),
 ("C05-no-task-limit-inc", "C05", "scriptplan/core/resource_scenario.py", "            task_scenario.incLimits(sb_idx, self.property)", "            pass", ["C05"]),
 ("C06-round-end-to-slot", "C06", "scriptplan/core/task_scenario.py", "            end_offset = round(grant_start + seconds_into_slot)", "            end_offset = slot_duration_seconds", ["C06", "C01"]),
 ("C06-forget-start-offset", "C06", "scriptplan/core/task_scenario.py", "                        start_date = start_date + timedelta(seconds=round(grant_start_seconds))", "                        start_date = start_date", ["C06", "C01"]),
 ("C06-milestone-end-plus-slot", "C06", "scriptplan/core/task_scenario.py", "                    self.property[(\"start\", self.scenarioIdx)] = date\n                    self.property[(\"end\", self.scenarioIdx)] = date\n            else:\n                if end_date:", "                    self.property[(\"start\", self.scenarioIdx)] = date\n                    self.property[(\"end\", self.scenarioIdx)] = self.project.idxToDate(slot_idx + 1)\n            else:\n                if end_date:", ["C06"]),
 ("C07-flip-tiebreak", "C07", "scriptplan/core/project.py", "            return (-prio, -crit, seq)", "            return (-prio, -crit, -seq)", ["C07", "C09"]),
 ("C07-sort-ascending", "C07", "scriptplan/core/project.py", "            return (-prio, -crit, seq)", "            return (prio, -crit, seq)", ["C07", "C09"]),
 ("C07-no-preloop-rollup", "C07", "scriptplan/core/project.py", "        self._updateContainerTaskStatus(scIdx)\n\n        while tasks:", "        while tasks:", ["C07"]),
 ("C08-walk-starts-late", "C08", "scriptplan/core/task_scenario.py", "                    self.currentSlotIdx = slot_idx\n            else:\n                # ALAP (backward) scheduling", "                    self.currentSlotIdx = slot_idx + (1 if self.slotStartOffset > 0 else 0)\n            else:\n                # ALAP (backward) scheduling", ["C08", "C07"]),
 ("C08-alap-two-slots-early", "C08", "scriptplan/core/task_scenario.py", "                    self.currentSlotIdx = self.project.dateToIdx(end_date) - 1\n                    if self.currentSlotIdx >= self.project.scoreboardSize():", "                    self.currentSlotIdx = self.project.dateToIdx(end_date) - 2\n                    if self.currentSlotIdx >= self.project.scoreboardSize():", ["C08"]),
 ("C09-seq-before-priority", "C09", "scriptplan/core/project.py", "            return (-prio, -crit, seq)", "            return (seq, -prio, -crit)", ["C09", "C07"]),
 ("C10-any-child", "C10", "scriptplan/core/project.py", "            all_scheduled = all(child.get(\"scheduled\", scIdx) for child in children)", "            all_scheduled = any(child.get(\"scheduled\", scIdx) for child in children)", ["C10"]),
 ("C10-rollup-parents-first", "C10", "scriptplan/core/project.py", "        for task in reversed(list(self.tasks)):\n            if task.leaf():\n                continue  # Skip leaf tasks", "        for task in list(self.tasks):\n            if task.leaf():\n                continue  # Skip leaf tasks", ["C10", "C07"]),
 ("C11-no-deadlock-branch", "C11", "scriptplan/core/project.py", "            elif tasks and not failedTasks:\n                # If we have tasks but none are ready and no failures yet, it's a deadlock\n                # (Unless readyForScheduling logic waits for something else?)\n                self.warning(\"deadlock\", \"Deadlock detected in scheduling\")\n                failedTasks.extend(tasks)\n                break", "            elif tasks and not failedTasks:\n                break", ["C11"]),
 ("C11-no-horizon-test", "C11", "scriptplan/core/task_scenario.py", "            if self.currentSlotIdx < lowerLimit or self.currentSlotIdx > upperLimit:\n                self.isRunAway = True\n                return False\n", "            if self.currentSlotIdx < lowerLimit:\n                self.isRunAway = True\n                return False\n", ["C11"]),
 ("C12-class-level-pending", "C12", "scriptplan/parser/tjp_parser.py", "    def __init__(self) -> None:\n        self._pending_depends: list[tuple[Task, list[Any]]] = []  # Store (task, depends_list) for later resolution\n        self._pending_precedes: list[tuple[Task, list[Any]]] = []  # Store (task, precedes_list) for later resolution", "    _pending_depends: list = []\n    _pending_precedes: list = []\n\n    def __init__(self) -> None:\n        pass", ["C12"]),
 ("C12-no-idempotence-guard", "C12", "scriptplan/core/project.py", "        if getattr(self, \"_schedulingDone\", False):\n            return True\n", "", ["C12"]),
 ("C14-month-based-weeks", "C14", "scriptplan/core/limits.py", "            return (slot_monday - start_monday).days // 7", "            return (slot_monday.isocalendar()[1] - start_monday.isocalendar()[1]) % 53", ["C14", "C05"]),
 ("C15-substring-reference", "C15", "scriptplan/parser/tjp_parser.py", "            candidates = [t for t in project.tasks if t.id == parts[0]]", "            candidates = [t for t in project.tasks if t.id.startswith(parts[0])]", ["C15"]),
 ("C15-macro-arg-order", "C15", "scriptplan/parser/macro_processor.py", "            return re.sub(r\"\\$(\\d+)\", substitute, expansion)", "            return re.sub(r\"\\$(\\d)\", substitute, expansion)", ["C15"]),
 ("C15-precedes-drops-gap", "C15", "scriptplan/parser/tjp_parser.py", "                        if prec_item.get(opt):\n                            options[opt] = prec_item.get(opt)", "                        if prec_item.get(opt) and opt != \"gapduration\":\n                            options[opt] = prec_item.get(opt)", ["C15"]),
 ("C16-shared-limits-object", "C16", "scriptplan/core/limits.py", "    def copy(self) -> \"Limits\":\n        \"\"\"Return a deep copy of this Limits collection.\"\"\"\n        return Limits(self)", "    def copy(self) -> \"Limits\":\n        \"\"\"Return a deep copy of this Limits collection.\"\"\"\n        return self\n\n    def __deepcopy__(self, memo):\n        return self", ["C16"]),
 ("C16-no-limit-reset", "C16", "scriptplan/core/task_scenario.py", "        if limits:\n            limits.reset()\n\n    def getAllDependencies", "        if limits and self.scenarioIdx == 0:\n            limits.reset()\n\n    def getAllDependencies", ["C16"]),
 ("C17-size-without-plus-one", "C17", "scriptplan/scheduler/scoreboard.py", "        self.size = math.ceil(diff / granularity) + 1", "        self.size = math.ceil(diff / granularity)", ["C17"]),
 ("C17-run-length-strict", "C17", "scriptplan/scheduler/scoreboard.py", "                    if duration >= minDurationSlots:", "                    if duration > minDurationSlots:", ["C17", "C13"]),
 ("C17-round-instead-of-floor", "C17", "scriptplan/scheduler/scoreboard.py", "        idx = math.floor(diff / self.resolution)", "        idx = round(diff / self.resolution)", ["C17", "C13"]),
 ("C18-sort-by-id", "C18", "scriptplan/report/task_report.py", None, None, ["C18"]),
 ("C18-cost-from-effort", "C18", "scriptplan/core/task_scenario.py", "            allocated_hours = allocated_seconds / 3600.0\n            total_cost += allocated_hours * rate", "            allocated_hours = (self.property.get(\"effort\", self.scenarioIdx) or 0)\n            total_cost += allocated_hours * rate", ["C18"]),
 ("C19-pick-first-output", "C19", "scriptplan/cli/plan.py", "            primary_output = temp_output_dir / f\"{auto_report_id}.{output_format}\"", "            primary_output = output_files[0]", ["C19", "C20"]),
 ("C19-syntax-error-exit-1", "C19", "scriptplan/cli/plan.py", "            if not success:\n                raise ReportGenerationError(error_msg or \"Report generation failed\")", "            if not success:\n                raise FileNotFoundError(error_msg or \"Report generation failed\")", ["C19"]),
 ("C19-diagnostic-on-stdout", "C19", "scriptplan/cli/plan.py", "                click.echo(f\"Processing: {tjp_path.name}\", err=True)", "                click.echo(f\"Processing: {tjp_path.name}\")", ["C19"]),
 ("C20-fixed-temp-name", "C20", "scriptplan/cli/plan.py", "    temp_fd, temp_path = tempfile.mkstemp(suffix=\".tjp\", prefix=\"plan_auto_\")", "    temp_path = os.path.join(tempfile.gettempdir(), \"plan_auto_current.tjp\")\n    temp_fd = os.open(temp_path, os.O_WRONLY | os.O_CREAT | os.O_TRUNC, 0o600)", ["C20"]),
 ("C20-output-dir-cwd", "C20", "scriptplan/cli/plan.py", "            temp_output_dir = Path(tempfile.mkdtemp(prefix=\"plan_output_\"))", "            temp_output_dir = Path(tempfile.mkdtemp(prefix=\"plan_output_\", dir=\".\"))", ["C20"]),
 ("C20-no-cleanup-on-generation-error", "C20", "scriptplan/cli/plan.py", "        if temp_output_dir is not None:\n            shutil.rmtree(temp_output_dir, ignore_errors=True)\n", "        if temp_output_dir is not None and sys.exc_info()[0] is None:\n            shutil.rmtree(temp_output_dir, ignore_errors=True)\n", ["C20"]),
]


def sh(cmd, cwd=None, env=None, timeout=3600):
    r = subprocess.run(cmd, shell=True, cwd=cwd, env=env, capture_output=True, text=True, timeout=timeout)
    return r.returncode, r.stdout + r.stderr


def main():
    want = sys.argv[1:]
    suite = "--suite" in want
    want = [w for w in want if not w.startswith("--")]
    if not os.path.isdir(WT):
        rc, o = sh("git -C /repo worktree add -q --detach %s HEAD" % WT)
        assert rc == 0, o
    else:
        sh("git checkout -q --detach $(git -C /repo rev-parse HEAD)", cwd=WT)
        sh("git checkout -- .", cwd=WT)
    res_path = os.path.join(V, "logs", "selfmut.json")
    results = json.load(open(res_path)) if os.path.exists(res_path) else {}
    for name, prop, f, old, new, checks in M:
        if want and not any(w in name for w in want):
            continue
        if old is None:
            continue
        path = os.path.join(WT, f)
        s = open(path).read()
        if s.count(old) != 1:
            print(name, "PATTERN NOT FOUND (%d)" % s.count(old))
            results[name] = {"error": "pattern count %d" % s.count(old)}
            continue
        open(path, "w").write(s.replace(old, new))
        rec = {"property": prop, "file": f, "checks": {}}
        try:
            rc, o = sh("%s -c 'import sys; sys.path.insert(0, \"%s\"); import scriptplan.cli.plan, scriptplan.parser.tjp_parser'" % (PY, WT))
            rec["imports"] = rc == 0
            if suite:
                rc, o = sh("%s -m pytest -q -p no:cacheprovider -n 8 --timeout=900 -x 2>&1 | tail -1" % PY, cwd=WT)
                rec["suite"] = o.strip()[-60:]
            for c in checks:
                t0 = time.time()
                env = dict(os.environ, VERIF_REPO=WT)
                rc, o = sh("./check %s --tier quick" % c, cwd=V, env=env)
                cls = [l.strip() for l in o.splitlines() if l.startswith("   new violation class")][:3]
                rec["checks"][c] = {"exit": rc, "caught": rc == 1, "wall_s": round(time.time() - t0, 1), "classes": cls}
                print("%-36s %s exit=%d %s %3.0fs %s" % (name, c, rc, "CAUGHT" if rc == 1 else ("inconclusive" if rc == 2 else "MISSED"), time.time() - t0, (cls[0][:110] if cls else "")), flush=True)
        finally:
            sh("git checkout -- .", cwd=WT)
        results[name] = rec
        json.dump(results, open(res_path, "w"), indent=1)


if __name__ == "__main__":
    main()
