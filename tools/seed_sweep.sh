#!/bin/sh
# tools/seed_sweep.sh "1 2 3" [tier] : every check under several VERIF_SEED values (evidence goes to scratch)
cd "$(dirname "$0")/.." || exit 3
tier=${2:-quick}
for sd in $1; do
  for p in C01 C02 C03 C04 C05 C06 C07 C08 C09 C10 C11 C12 C13 C14 C15 C16 C17 C18 C19 C20; do
    out=$(VERIF_SEED=$sd VERIF_EVIDENCE_SCRATCH=1 ./check $p --tier $tier 2>&1); rc=$?
    echo "seed=$sd $p rc=$rc :: $(echo "$out" | head -1)"
    [ $rc -ne 0 ] && echo "$out" | grep -v "^   counters\|^   monitors" | head -10
  done
done
