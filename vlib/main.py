"""Driver: ./check <PROP> [--tier quick|thorough] [--replay file]"""
import argparse
import collections
import importlib
import json
import os
import sys
import time

from . import common, cybuild, evidence, findings, pool, registry


def merge(results):
    C = collections.Counter()
    sigs = set()
    viols = []
    vc = collections.Counter()
    samples = []
    notes = []
    status = collections.Counter()
    for job, res, st in results:
        status[st.split(":")[0]] += 1
        if res is None:
            continue
        if st != "ok":
            notes.append("worker %s %s: %s" % (job.get("widx"), st, (res or {}).get("_stderr", "")[-600:]))
            continue
        for k, v in res.get("counters", {}).items():
            if isinstance(v, (int, float)):
                if k.startswith("max-"):
                    C[k] = max(C[k], v)
                else:
                    C[k] += v
        sigs.update(res.get("sigs", []))
        viols.extend(res.get("violations", []))
        for (p, clause, mechs), n in [((k[0], k[1], tuple(k[2])), v) for k, v in res.get("viol_counts", [])]:
            vc[(p, clause, mechs)] += n
        for s in res.get("samples", []):
            if len(samples) < 4:
                samples.append(s)
        notes.extend(res.get("notes", []))
    return C, sigs, viols, vc, samples, notes, status


def main(argv=None):
    ap = argparse.ArgumentParser()
    ap.add_argument("prop")
    ap.add_argument("--tier", default=None)
    ap.add_argument("--replay", default=None)
    ap.add_argument("--scale", type=float, default=float(os.environ.get("VERIF_SCALE", "1")))
    a = ap.parse_args(argv)
    prop = a.prop
    tier = a.tier or common.tier()
    seed = common.seed()
    cfg = registry.get(prop)
    t0 = time.time()
    if a.replay:
        return do_replay(prop, cfg, a.replay)
    mod = importlib.import_module(cfg["module"])
    try:
        if hasattr(mod, "drive"):
            # the module runs its own driver (CLI / process-level properties)
            out = mod.drive(prop, tier, seed, cfg)
        else:
            out = drive_batches(prop, tier, seed, cfg, a.scale)
    except Exception:
        # an error of the harness itself decides nothing about the property: inconclusive, never "violated"
        import traceback
        traceback.print_exc()
        print("INCONCLUSIVE: the harness failed before a verdict was reached (see traceback above)")
        return 2
    return finish(prop, tier, seed, cfg, out, t0)


def drive_batches(prop, tier, seed, cfg, scale=1.0):
    tc = cfg[tier]
    ext_modes = cfg.get("ext", ["pure", "fresh"])
    cydir = None
    notes = []
    if "fresh" in ext_modes:
        cydir, err = cybuild.build()
        if cydir is None:
            notes.append("fresh Cython build failed, pure-Python only: %s" % (err or "")[-300:])
            ext_modes = [e for e in ext_modes if e != "fresh"] or ["pure"]
    W = min(common.NCPU, tc.get("workers", common.NCPU))
    total = int(tc["cases"] * scale)
    per = max(1, total // W)
    jobs = []
    for w in range(W):
        jobs.append(dict(prop=prop, module=cfg["module"], tier=tier, seed=seed, widx=w, nworkers=W, ncases=per,
                         ext=ext_modes[w % len(ext_modes)], cydir=cydir, budget_s=tc.get("budget_s", 600),
                         case_timeout=tc.get("case_timeout", 30), hard_timeout=tc.get("budget_s", 600) + 240,
                         params=cfg.get("params", {})))
    results = pool.run_jobs(jobs, W, tag=prop)
    C, sigs, viols, vc, samples, wnotes, status = merge(results)
    return dict(C=C, sigs=sigs, viols=viols, vc=vc, samples=samples, notes=notes + wnotes, status=status, nworkers=W)


def finish(prop, tier, seed, cfg, out, t0):
    C, sigs, viols, vc, samples, notes, status = (out[k] for k in ("C", "sigs", "viols", "vc", "samples", "notes", "status"))
    new, known, n_new, idx = findings.classify(prop, viols, vc)
    os.makedirs(os.path.join(common.REPLAYS, prop), exist_ok=True)
    replay_paths = []
    seen_cls = collections.Counter()
    picked = []
    for v in new:
        k = (v["clause"], tuple(v["mechs"]))
        if seen_cls[k] < 2:
            seen_cls[k] += 1
            picked.append(v)
    for v in picked[:16]:
        rp = v.get("replay") or dict(property=prop, clause=v["clause"], observed=v["detail"])
        rp.setdefault("observed", v["detail"])
        rp.setdefault("clause", v["clause"])
        rp["repo_rev"] = common.repo_rev()
        rp["tier"] = tier
        path = os.path.join(common.REPLAYS, prop, "%s-%s.json" % (v["clause"].replace("/", "_").replace(">", "gt").replace(" ", "_"), common.h12(common.dumps(rp, sort_keys=True))))
        common.dump_file(rp, path, indent=1)
        replay_paths.append((v, path))
    tc = cfg[tier]
    nontriv = len(sigs)
    evals = int(C.get("cases", 0))
    inconclusive = []
    bad_workers = sum(v for k, v in status.items() if k != "ok")
    if bad_workers:
        inconclusive.append("%d worker(s) did not finish normally" % bad_workers)
    if evals == 0:
        inconclusive.append("no case was evaluated")
    if nontriv < tc.get("min_nontrivial", 2):
        inconclusive.append("only %d distinct non-trivial signatures (minimum %d)" % (nontriv, tc.get("min_nontrivial", 2)))
    for mon in cfg.get("deciding_monitors", []):
        if C.get(mon, 0) == 0:
            inconclusive.append("deciding monitor/counter '%s' observed nothing" % mon)
    if C.get("case-timeout", 0) > max(2, evals * 0.01) and not cfg.get("timeouts_ok"):
        inconclusive.append("%d case watchdog(s) fired" % C.get("case-timeout", 0))
    if C.get("harness-exception", 0) > 0:
        inconclusive.append("%d harness exception(s): %s" % (C["harness-exception"], [n for n in notes if "harness-exception" in n][:1]))
    wall = time.time() - t0
    evidence.write(prop, tier, seed, cfg, C, sigs, samples, notes, known, n_new, wall, inconclusive, vc, out.get("extra"))
    # ---- report
    print("== %s [%s] seed=%d repo=%s: %d cases, %d distinct non-trivial, %.1fs" % (prop, tier, seed, common.repo_rev(), evals, nontriv, wall))
    keys = [k for k in sorted(C) if not k.startswith("monitor:") and not k.startswith("ev:")]
    print("   counters: " + ", ".join("%s=%s" % (k, int(C[k]) if float(C[k]).is_integer() else round(C[k], 1)) for k in keys[:60]))
    mon = {k: int(v) for k, v in C.items() if k.startswith("monitor:") or k.startswith("ev:")}
    if mon:
        print("   monitors: " + ", ".join("%s=%d" % kv for kv in sorted(mon.items())))
    for mm, n in sorted(known.items()):
        e = idx[mm]
        print("KNOWN-FINDING: property=%s %s: %s [%d occurrence(s) this run]" % (prop, mm, e.get("what", ""), n))
    rc = 0
    if n_new or new:
        agg = collections.Counter()
        for (p, clause, mechs), n in vc.items():
            if not any(mm in idx for mm in mechs):
                agg[(clause, mechs)] += n
        for (clause, mechs), n in agg.most_common(12):
            print("   new violation class: %s mechs=%s x%d" % (clause, list(mechs), n))
        for v, path in replay_paths[:5]:
            print("VIOLATION property=%s replay=%s" % (prop, path))
        if not replay_paths:
            print("VIOLATION property=%s replay=%s" % (prop, os.path.join(common.REPLAYS, prop)))
        rc = 1
    elif inconclusive:
        for s in inconclusive:
            print("INCONCLUSIVE: %s" % s)
        for n in notes[:5]:
            print("   note: %s" % n[:800])
        rc = 2
    else:
        print("   held on everything observed")
    return rc


def do_replay(prop, cfg, path):
    """re-run one recorded case in-process against the real code (needs PYTHONPATH to contain the repo)."""
    import subprocess
    env = pool.worker_env()
    code = ("import sys; from vlib import common, worker; import importlib; "
            "from vlib import cybuild; cybuild.install('pure'); "
            "rp = common.load_file(sys.argv[1]); mod = importlib.import_module(%r); "
            "acc = worker.Acc({}); r = mod.replay(%r, rp, acc); "
            "res = acc.result(); "
            "print('replayed clause:', rp.get('clause')); "
            "[print('  reproduced:', v['prop'], v['clause'], v['mechs'], str(v['detail'])[:400]) for v in res['violations']]; "
            "print('not reproduced' if not res['violations'] else 'VIOLATION property=%s replay=' + sys.argv[1]); "
            "sys.exit(1 if res['violations'] else 0)") % (cfg["module"], prop, prop)
    r = subprocess.run([common.PY, "-c", code, path], env=env, cwd=common.VERIF)
    return r.returncode


if __name__ == "__main__":
    sys.exit(main())
