"""Single-run scheduling properties C01-C06, C08, C10: real parser+scheduler under M-ledger/M-cursor/M-pick/M-limit,
offline oracles of vlib/oracles.py.  Each property has its own workload (dialect mix); every run also contains a
mechanism-free sub-workload in which no listed known mechanism can trigger by construction."""
import contextlib
import io
import random
import warnings

from .. import common, findings, gen, indep, monitors, oracles

_P = None


def parser():
    global _P
    if _P is None:
        from scriptplan.parser.tjp_parser import ProjectFileParser
        _P = ProjectFileParser()
    return _P


def parse(text):
    """Run the real parser+scheduler; returns (project, stderr text)."""
    err = io.StringIO()
    with contextlib.redirect_stderr(err), contextlib.redirect_stdout(io.StringIO()), warnings.catch_warnings():
        warnings.simplefilter("ignore")
        try:
            p = parser().parse(text)
        except BaseException:
            # a run that was cut short (watchdog alarm, engine exception) may leave the shared parser object half-way
            # through its bookkeeping: the next case gets a fresh one
            global _P
            _P = None
            raise
    return p, err.getvalue()


def setup(job, acc):
    monitors.install_all()


# ------------------------------------------------------------------------------------------------ workloads
# Each entry: (weight, name, kwargs for gen.gen, mechanism_free?)

def _w(prop):
    RES_ALL = (60, 60, 30, 15, 10, 5)
    if prop == "C01":
        return [
            (5, "subslot", dict(res_choices=RES_ALL, subslot=True, nres=(1, 2), ntasks=(3, 12), tz=False, limits=False, crossmid=False,
                                nested=False, contention=True, weeks=(1, 3), alts=True), False),
            (2, "subslot-nested-teams", dict(res_choices=(60, 30, 15), subslot=True, nres=(2, 3), ntasks=(3, 10), tz=False, limits=True,
                                             crossmid=False, weeks=(2, 4), alts=True), False),
            (3, "core", dict(core=True, subslot=False, res_choices=(60, 30, 15), nres=(1, 3), ntasks=(3, 10), contention=True, alap=False), True),
        ]
    if prop == "C02":
        return [
            (5, "aligned", dict(res_choices=(60, 60, 30, 15), subslot=False, aligned=True, tz=True, crossmid=True, limits=False, nres=(1, 3),
                                ntasks=(2, 7), special_start=0.6, weeks=(2, 5), overrun=False), True),
            (2, "aligned-subslot", dict(res_choices=(60, 30), subslot=True, aligned=True, tz=True, crossmid=True, limits=False, nres=(1, 3),
                                        ntasks=(2, 7), special_start=0.6), False),
            (3, "nonaligned", dict(res_choices=(60, 30), subslot=False, aligned=False, tz=True, odd_zones=True, crossmid=True, limits=False,
                                   nres=(1, 3), ntasks=(2, 6), special_start=0.6), False),
        ]
    if prop == "C03":
        return [
            (5, "subslot", dict(res_choices=RES_ALL, subslot=True, nres=(1, 3), ntasks=(2, 9), tz=False, limits=False, crossmid=False,
                                contention=True, weeks=(1, 3), alts=True, effs=[1.0, 0.5, 0.8, 0.9, 1.25, 2.0, 0.7]), False),
            (3, "core", dict(core=True, subslot=False, res_choices=(60, 30, 15), nres=(1, 3), ntasks=(3, 9), contention=True, alts=True), True),
            # teams under limits of every scope (resource, group, task, enclosing container): a team is booked for the same
            # instants or not at all, whatever a limit leaves over (seeded change C03-d)
            (2, "teams-under-limits", dict(res_choices=(60, 30), subslot=False, nres=(2, 4), ntasks=(3, 9), tz=False, limits=True, tasklimits=True,
                                           crossmid=False, contention=True, weeks=(1, 3), max_depth=3, leaves=False), False),
        ]
    if prop == "C04":
        return [
            (4, "nested-dags", dict(res_choices=(60, 30, 15), subslot=True, nres=(1, 3), ntasks=(4, 12), max_depth=4, tz=True, limits=False,
                                    weeks=(3, 6), milestones=0.2), False),
            (3, "core", dict(core=True, subslot=False, res_choices=(60, 30, 15), nres=(1, 3), ntasks=(4, 12), max_depth=4, milestones=0.2), True),
            (2, "alap", dict(res_choices=(60, 30), subslot=False, alap=True, nres=(1, 3), ntasks=(3, 9), tz=False, limits=False, teams=False,
                             weeks=(4, 8)), False),
        ]
    if prop == "C05":
        return [
            (5, "overrun", dict(res_choices=(60, 60, 30, 15, 10), subslot=False, overrun=True, limits=True, tasklimits=True, nres=(1, 3),
                                ntasks=(2, 7), tz=False, crossmid=False, weeks=(1, 2), special_start=0.6, leaves=False), False),
            (2, "short-days", dict(res_choices=(60, 30), subslot=False, overrun=True, limits=True, tasklimits=True, nres=(1, 3), ntasks=(2, 6),
                                   tz=False, crossmid=False, days=(5, 9), special_start=0.5, leaves=False), False),
            (3, "group-tree", dict(res_choices=(60, 30, 15), subslot=False, overrun=True, limits=True, tasklimits=False, nres=(2, 4), ntasks=(3, 8),
                                   tz=False, crossmid=False, weeks=(1, 3), leaves=False, group_p=0.9, teams=True), False),
            (3, "ample", dict(core=True, subslot=False, res_choices=(60, 30, 15), limits=True, tasklimits=True, nres=(1, 3), ntasks=(2, 7),
                              tz=False, crossmid=False, group_p=0.5), True),
        ]
    if prop == "C06":
        return [
            (5, "subslot", dict(res_choices=RES_ALL, subslot=True, nres=(1, 2), ntasks=(2, 9), tz=False, limits=False, crossmid=False,
                                contention=True, weeks=(1, 3), milestones=0.2), False),
            (3, "core", dict(core=True, subslot=False, res_choices=(60, 30, 15), nres=(1, 3), ntasks=(3, 9), milestones=0.2), True),
        ]
    if prop == "C08":
        return [
            (4, "asap-hostile", dict(res_choices=(60, 30, 15), subslot=True, alap=False, nres=(1, 3), ntasks=(2, 8), tz=True, limits=False,
                                     teams=False, crossmid=True, core=False, weeks=(2, 4), contention=True), False),
            (3, "alap", dict(res_choices=(60, 30), subslot=True, alap=True, nres=(1, 3), ntasks=(2, 8), tz=False, limits=False, teams=False,
                             crossmid=False, weeks=(3, 6)), False),
            (3, "core-asap", dict(core=True, subslot=False, alap=False, res_choices=(60, 30, 15), nres=(1, 3), ntasks=(2, 8), limits=False,
                                  teams=False), True),
            # alternatives: whichever candidate is booked, IT must not be left idle (seeded change C08-e started the backward
            # walk at the primary's last shift although the alternative was the one booked)
            (2, "alap-alternatives", dict(res_choices=(60, 30), subslot=False, alap=True, nres=(2, 4), ntasks=(2, 7), tz=False, limits=False, teams=False,
                                          crossmid=False, weeks=(3, 6), alts=True), False),
            (1, "asap-alternatives", dict(res_choices=(60, 30), subslot=False, alap=False, nres=(2, 4), ntasks=(2, 7), tz=False, limits=False, teams=False,
                                          crossmid=False, weeks=(2, 4), alts=True), False),
        ]
    if prop == "C10":
        return [
            (5, "deep", dict(res_choices=(60, 30), subslot=True, nres=(1, 3), ntasks=(4, 14), max_depth=5, tz=False, limits=True, weeks=(2, 4),
                             milestones=0.25, overrun=False), False),
            (2, "unschedulable-mix", dict(res_choices=(60,), subslot=False, nres=(1, 3), ntasks=(4, 12), max_depth=5, tz=False, limits=True,
                                          days=(3, 6), overrun=True, milestones=0.2), False),
            (3, "core", dict(core=True, subslot=False, res_choices=(60, 30), nres=(1, 3), ntasks=(4, 12), max_depth=5, milestones=0.25), True),
        ]
    raise KeyError(prop)


def pick_workload(rnd, prop):
    ws = _w(prop)
    tot = sum(w for w, *_ in ws)
    x = rnd.random() * tot
    for w, name, kw, mfree in ws:
        x -= w
        if x <= 0:
            return name, kw, mfree
    return ws[-1][1:]


def make_case(rnd, prop):
    name, kw, mfree = pick_workload(rnd, prop)
    kw = dict(kw)
    if prop == "C08" and name == "asap-hostile":
        # exact calendar needed: cross-midnight only on mon - sun (all readings coincide there)
        m = gen.gen(rnd, **kw)
        for sid, specs in list(m["shifts"].items()):
            for (d0, d1, ivs) in specs:
                if any(e <= s for s, e in ivs) and (d0, d1) != (0, 6):
                    m["shifts"][sid] = [(0, 6, ivs)]
                    break
        for r in m["resources"]:
            if "inline" in r:
                for (d0, d1, ivs) in r["inline"]:
                    if any(e <= s for s, e in ivs) and (d0, d1) != (0, 6):
                        r["inline"] = [(0, 6, ivs)]
                        break
            # inline copies of a shift must stay in sync with the (possibly rewritten) shift
        return name, m, mfree
    m = gen.gen(rnd, **kw)
    if prop == "C03" and name == "teams-under-limits" and len(m["resources"]) >= 2:
        ids = [r["id"] for r in m["resources"]]
        for t in m["tasks"]:
            if "effort_min" in t and len(t.get("alloc", [])) == 1 and not t.get("alt") and rnd.random() < 0.5:
                t["alloc"] = t["alloc"] + [rnd.choice([x for x in ids if x != t["alloc"][0]])]
        tm_ = gen.tmap(m)
        for t in m["tasks"]:
            if t["container"] and "limits" not in t and rnd.random() < 0.5:
                t["limits"] = {rnd.choice(["dailymax", "weeklymax"]): rnd.choice([2, 3, 4, 5])}   # the limit sits on the container, the teams below it
        gen.equalize_teams(m)
    if prop == "C05" and m.get("groups") and rnd.random() < 0.25:
        # a limited GROUP named in an allocation (as alternative, or directly): touching the group must not disturb its
        # counters (seeded change C05-f reset them in the lazy initialiser that every touch of a resource runs)
        # (a group without members is a leaf resource for the engine: only real groups qualify)
        lim_groups = [g for g in m["groups"] if g.get("limits") and any(r.get("group") == g["id"] for r in m["resources"])]
        leaves_ = [t for t in m["tasks"] if "effort_min" in t and len(t.get("alloc", [])) == 1 and not t.get("alt")]
        if lim_groups and leaves_:
            for t in rnd.sample(leaves_, min(len(leaves_), rnd.randint(1, 3))):
                g = rnd.choice(lim_groups)
                if rnd.random() < 0.7:
                    t["alt"] = [g["id"]]
                else:
                    t["alloc"] = [g["id"]]          # books nothing (a group has no time of its own); the touches are the point
    if prop == "C10" and rnd.random() < 0.08:
        # a roadmap: EVERY leaf is a pinned milestone (the scheduling loop has nothing to do), containers carry their own,
        # wider dates - they still summarise their children (seeded change C10-e skipped the roll-up for an empty work list)
        from datetime import timedelta as _td
        for t in m["tasks"]:
            if t["container"]:
                t.pop("deps", None)
                if rnd.random() < 0.6:
                    t["start"] = m["start"]
                if rnd.random() < 0.4:
                    t["end"] = m["start"] + _td(days=13)
            else:
                for k in ("effort_min", "alloc", "alt", "deps", "limits", "end", "effort_inherited", "priority"):
                    t.pop(k, None)
                t["milestone"] = True
                t["start"] = m["start"] + _td(days=rnd.randrange(1, 12), minutes=rnd.randrange(0, 24 * 60, m["res"]))
            t.pop("c_effort_min", None)
        m["alap"] = False
        m["acyclic"] = gen.acyclic(m)
        return "roadmap", m, mfree
    if prop == "C10":
        # shapes aimed at "containers and resource groups never occupy resource time"
        if m.get("groups") and rnd.random() < 0.35:
            leaves_ = [t for t in m["tasks"] if "effort_min" in t]
            if leaves_:
                tg = rnd.choice(leaves_)
                gid = rnd.choice(m["groups"])["id"]
                k = rnd.random()
                if k < 0.4:
                    tg["alloc"] = [gid]                                              # a task that allocates a GROUP
                elif k < 0.7:
                    tg["alloc"] = [gid]                                              # ... a group with a leaf resource as alternative
                    tg["alt"] = [rnd.choice(m["resources"])["id"]]
                else:
                    tg["alloc"] = [rnd.choice(m["resources"])["id"]]                 # ... a leaf resource with a group as alternative
                    tg["alt"] = [gid]
                    for t2 in leaves_:                                               # and competition for the primary, so that the alternative matters
                        if t2 is not tg and rnd.random() < 0.5:
                            t2["alloc"] = list(tg["alloc"])
                            t2.pop("alt", None)
        conts = [t for t in m["tasks"] if t["container"]]
        if conts and rnd.random() < 0.35:
            rnd.choice(conts)["alloc"] = [rnd.choice(m["resources"])["id"]]          # allocation written on a container
    if prop == "C10" and name == "unschedulable-mix" and rnd.random() < 0.5 and m["resources"]:
        # a resource that never works inside the window: its tasks cannot be scheduled
        r = rnd.choice(m["resources"])
        r.pop("shift", None)
        r["inline"] = [(6, 6, [(2 * 60, 3 * 60)])]
        r["leaves"] = [(m["start"], m["start"] + __import__("datetime").timedelta(days=400))]
    return name, m, mfree


def analyse(prop, m, p, events, acc, sc=0):
    """run the oracles relevant for prop; returns (violations, sig, nontrivial, stats)"""
    obs = oracles.Obs(p, sc)
    mech = findings.Mech(m, obs, events, sc)
    stats = {}
    viol = []
    L = m["res"] * 60
    shared = sum(1 for d in obs.led.values() for lst in d.values() if len(lst) > 1)
    partial = sum(1 for d in obs.led.values() for lst in d.values() for _, s in lst if s < L - 1e-6)
    nsched = sum(1 for t in obs.T.values() if t["sch"] and t["leaf"])
    nun = sum(1 for t in obs.T.values() if not t["sch"] and t["leaf"])
    alap_tasks = sum(1 for t in obs.T.values() if t["fwd"] is False and t["leaf"])
    if prop == "C01":
        viol = oracles.c01(m, obs, mech)
        pats = set()
        team = {indep.tid(t["path"]) for t in m["tasks"] if len(t.get("alloc", [])) > 1}
        for rid, d in obs.led.items():
            for idx, lst in d.items():
                if len(lst) > 1:
                    kinds = sorted(oracles.portion_interval(m, obs, tid2, idx, s2)[0] for tid2, s2 in lst)
                    pats.add((len(lst), tuple(kinds), any(tid2 in team for tid2, _ in lst),
                              tuple(sorted(obs.T[tid2]["fwd"] is not False for tid2, _ in lst))))
        sig = ("C01", m["res"], m["alap"], tuple(sorted(pats)), min(shared, 6))
        nontriv = shared > 0
    elif prop == "C02":
        cals = indep.calendars(m)
        viol, n = oracles.c02(m, obs, mech, cals)
        stats["portions-checked"] = n
        zs = tuple(sorted({(r.get("tz") or "-") for r in m["resources"] if r["id"] in obs.led}))
        sig = ("C02", m["res"], m["alap"], zs, bool(m.get("vacations")), any(r.get("leaves") for r in m["resources"]),
               any(e <= s for specs in m["shifts"].values() for _, _, ivs in specs for s, e in ivs), m["start"].month)
        nontriv = n > 0 and (any(z != "-" for z in zs) or bool(m["shifts"]) or bool(m.get("vacations")))
    elif prop == "C03":
        viol = oracles.c03(m, obs, mech)
        feats = set()
        for t in m["tasks"]:
            if "effort_min" in t and obs.T.get(indep.tid(t["path"]), {}).get("sch"):
                feats.add((t["effort_min"] % m["res"] != 0, gen.resource(m, t["alloc"][0])["eff"], len(t["alloc"]), bool(t.get("alt"))))
        sig = ("C03", m["res"], m["alap"], tuple(sorted(feats)))
        nontriv = nsched > 0 and bool(feats)
    elif prop == "C04":
        viol, n = oracles.c04(m, obs, mech)
        stats["edges-checked"] = n
        depth = max(len(t["path"]) for t in m["tasks"])
        kinds = set()
        for t in m["tasks"]:
            for d in t.get("deps", []):
                kinds.add(("c" if t["container"] else "l", "gap" if d.get("gap_min") else "-", "os" if d.get("onstart") else "fs",
                           "C" if any(x["path"] == d["to"] and x["container"] for x in m["tasks"]) else "L"))
        sig = ("C04", depth, tuple(sorted(kinds)), any("start" in t and t["container"] for t in m["tasks"]), m["alap"], m["res"])
        nontriv = n > 0
    elif prop == "C05":
        viol, n = oracles.c05(m, obs, mech)
        stats["limit-periods-checked"] = n
        scopes = set()
        for r in m["resources"]:
            for k in (r.get("limits") or {}):
                scopes.add(("r", k))
        for g in m.get("groups", []):
            for k in (g.get("limits") or {}):
                scopes.add(("g", k))
        for t in m["tasks"]:
            for k in (t.get("limits") or {}):
                scopes.add(("t", k))
        beyond = obs.end > oracles.declared_end(m)
        sig = ("C05", tuple(sorted(scopes)), beyond, m["res"], m["alap"], m["start"].isocalendar()[1] >= 52 or m["start"].isocalendar()[1] == 1,
               m["start"].weekday())
        nontriv = n > 0
    elif prop == "C06":
        viol = oracles.c06(m, obs, mech) + oracles.c06_milestones(m, obs, mech)
        feats = set()
        for tid2, o in obs.T.items():
            if o["sch"] and o["leaf"] and o["start"] is not None and o["end"] is not None:
                sm = (o["start"] - obs.start).total_seconds() % L != 0
                em = (o["end"] - obs.start).total_seconds() % L != 0
                single = len({i for sl in obs.per_task.get(tid2, {}).values() for i in sl}) == 1
                feats.add((o["fwd"] is not False, sm, em, single))
        sig = ("C06", m["res"], tuple(sorted(feats)))
        nontriv = any(f[1] or f[2] for f in feats)
    elif prop == "C08":
        cals = indep.calendars(m)
        viol, nt, ns = oracles.c08(m, obs, mech, cals)
        stats["tasks-checked"] = nt
        stats["empty-slots-examined"] = ns
        sig = ("C08", m["alap"], m["res"], min(ns, 50) // 5, nt, bool(m["shifts"]), any(r.get("tz") for r in m["resources"]))
        nontriv = nt > 0 and ns > 0
    elif prop == "C10":
        viol, n = oracles.c10(m, obs, mech)
        stats["containers-checked"] = n
        depth = max(len(t["path"]) for t in m["tasks"])
        sig = ("C10", depth, n, nun > 0, nsched > 0, m["alap"])
        nontriv = n > 0
    else:
        raise KeyError(prop)
    stats.update({"tasks-scheduled": nsched, "tasks-unscheduled": nun, "shared-slots": shared, "partial-portions": partial, "alap-tasks": alap_tasks})
    return viol, sig, nontriv, stats, obs


def collections_counter(it):
    import collections
    return collections.Counter(it)


def run_text(prop, m, text, acc, cs=None, name="", mfree=False, record=True):
    monitors.reset()
    try:
        p, err = parse(text)
    except Exception as e:
        acc.count("engine-exception:" + type(e).__name__)
        return None
    events = list(monitors.EV)
    m_all = m
    if m.get("scen_tree"):
        m = scen_model(m_all, m_all["scen_tree"][0][0])
    viol, sig, nontriv, stats, obs = analyse(prop, m, p, events, acc)
    nsc = p.scenarioCount()
    if nsc > 1:
        # the text declares further (nested) scenarios WITHOUT overrides: what holds for the first scenario holds for
        # each of them, judged on that scenario's own ledgers and dates (seeded change C02-e stored resource leaves for
        # top-level scenarios only)
        acc.count("cases-with-several-scenarios")
        for sc in range(1, nsc):
            ev_sc = [e for e in events if e.get("sc", 0) == sc]
            m_sc = m
            if m_all.get("scen_tree"):
                # scenario-specific efforts / pins / ends: this scenario is judged against ITS effective attributes
                m_sc = scen_model(m_all, m_all["scen_tree"][sc][0])
            v2, _sig2, _nt2, _st2, _obs2 = analyse(prop, m_sc, p, ev_sc or events, acc, sc)
            acc.count("further-scenarios-analysed")
            for v in v2:
                v["detail"] = dict(v["detail"], scenario_index=sc)
                # (the two known mechanisms - slot-start sampling, leftovers of failed tasks - are exact predicates over this
                #  scenario's calendar and ledgers, not over the event stream)
            viol = list(viol) + v2
    for k, v in stats.items():
        acc.count(k, v)
    acc.count("events", len(events))
    for k in ("book", "release", "pick", "limit-inc", "cursor-first"):
        acc.count("ev:" + k, sum(1 for e in events if e["k"] == k))
    acc.count("online-assertion-failures", len(monitors.ONLINE))
    for name_, _ in monitors.ONLINE[:50]:
        acc.count("online:" + name_)
    if nontriv:
        acc.count("nontrivial")
        acc.sig(sig)
    if mfree:
        acc.count("mechanism-free-cases")
    for v in viol:
        if v["prop"] != prop:
            continue
        # mechanism-free strata cannot trigger the sub-slot / calendar mechanisms by construction, so a violation there is
        # reported without them; the leftover of a task that was given up is an exact predicate, not a heuristic, and
        # can occur in any dialect
        mechs = ([x for x in v["mechs"] if v["clause"] == "work-booked-for-unscheduled-task"] if mfree else v["mechs"])
        rp = None
        if record:
            rp = dict(property=prop, clause=v["clause"], seed=cs, dialect=name, mechanism_free=mfree, model=m_all, text=text,
                      observed=v["detail"], mechanisms=v["mechs"],
                      events=[e for e in events if e["k"] in ("book", "release", "reserve-only")][:60])
        acc.violation(prop, v["clause"], v["detail"], mechs, rp)
    if record and nontriv:
        acc.sample(dict(dialect=name, seed=cs, text=text, observed={t: (o["sch"], o["start"], o["end"]) for t, o in list(obs.T.items())[:8]},
                        monitor_events=len(events), stats=stats), limit=2)
    return viol


def scen_model(m, sid):
    """the model as scenario sid sees it: scenario-specific efforts / starts / ends applied; a leaf whose effort exists in
    other scenarios only has nothing to do here (start = end, no work)"""
    from .meta import effective
    import copy as _copy
    m_sc = _copy.deepcopy(m)
    for t in m_sc["tasks"]:
        v = effective(m["scen_tree"], t.get("sc_effort", {}), sid)
        if v is not None:
            t["effort_min"] = v
        elif t.get("effort_late"):
            for key in ("effort_min", "alloc", "alt", "alloc_dup"):
                t.pop(key, None)
            t["milestone"] = True
        v = effective(m["scen_tree"], t.get("sc_start", {}), sid)
        if v is not None:
            t["start"] = v
        v = effective(m["scen_tree"], t.get("sc_end", {}), sid)
        if v is not None:
            t["end"] = v
    return m_sc


def run_case(rnd, cs, job, acc):
    prop = job["prop"]
    name, m, mfree = make_case(rnd, prop)
    if not m["acyclic"]:
        acc.count("skipped-cyclic")
        return
    acc.count("dialect:" + name)
    if prop == "C04" and rnd.random() < 0.5:
        # the property names edges created by 'precedes' and relative/absolute references: the same model spelled that way
        # (a fifth of the moved edges is ALSO kept as a bare 'depends': the gap written on the precedes entry still counts)
        text = gen.render(m, refrnd=random.Random(cs + 1), precrnd=random.Random(cs + 2))
        acc.count("spelled-with-precedes-and-mixed-references")
    elif prop in ("C03", "C04", "C06", "C08") and rnd.random() < (0.12 if prop == "C04" else 0.09):
        # scenarios WITH overrides (efforts; deadlines of backward tasks), written in front of or behind the plain lines:
        # each scenario is judged against its own effective attributes (seeded change C08-f applied a plain 'end' written
        # below a '<scenario>:end' to that scenario)
        from .meta import scen_lines
        from datetime import timedelta as _td
        tree = [("plan", None), ("delayed", "plan"), ("worse", "delayed"), ("alt", "plan")]
        m["scen_tree"] = tree
        tm_ = gen.tmap(m)
        for t in m["tasks"]:
            if t["container"]:
                continue
            if "effort_min" in t and rnd.random() < 0.4:
                # (also on a leaf that has no effort line of its own, only the container's: the scenario-specific line is
                #  then the ONLY effort the leaf states - seeded change C03-f looked the leaf's own statement up in the first
                #  scenario only and let the container's value win everywhere)
                t["sc_effort"] = {rnd.choice(["delayed", "worse", "alt"]): t["effort_min"] + rnd.choice([1, 2, 4]) * m["res"]}
            elif ("effort_min" in t and not t.get("effort_inherited") and not m["alap"] and "start" not in t and "end" not in t
                  and not t.get("limits") and not any("c_effort_min" in tm_[t["path"][:k_]] for k_ in range(1, len(t["path"])))
                  and rnd.random() < 0.25):
                # an effort that exists in later scenarios ONLY: in the others the leaf has nothing to do (start = end, no
                # bookings) - seeded change C06-f read the first scenario's effort while booking in a later one
                t["sc_effort"] = {rnd.choice(["delayed", "worse", "alt"]): t["effort_min"]}
                t["effort_late"] = True
            if (prop == "C04" or rnd.random() < 0.2) and not m["alap"] and t.get("deps") and "start" not in t and "end" not in t and rnd.random() < 0.5:
                # a pin that exists in ONE scenario (and the scenarios nested in it): its later siblings still follow the
                # dependencies (seeded change C04-f handed '<scenario>:start' on to every later scenario of the same level)
                t["sc_start"] = {rnd.choice(["delayed", "worse"]): m["start"] + _td(days=rnd.randrange(0, 4), minutes=rnd.randrange(0, 24 * 60, m["res"]))}
            if "end" in t and m["alap"] and rnd.random() < 0.6:
                t["sc_end"] = {rnd.choice(["delayed", "alt"]): t["end"] - _td(days=rnd.randint(1, 3))}
            if rnd.random() < 0.5:
                t["sc_first"] = True
        text = gen.render(m, scenarios=scen_lines(tree))
        acc.count("cases-with-scenario-overrides")
    elif prop in ("C01", "C02", "C03", "C05", "C06", "C10") and rnd.random() < 0.1:
        text = gen.render(m, scenarios=['scenario plan "p" {', '  scenario alt "a" {', '    scenario deep "d"', "  }", '  scenario other "o"', "}"])
    else:
        text = gen.render(m)
    run_text(prop, m, text, acc, cs, name, mfree)


def teardown(job, acc):
    for k, v in monitors.counts().items():
        acc.count("monitor:" + k, v)


def replay(prop, rp, acc):
    monitors.install_all()
    return run_text(prop, rp["model"], rp["text"], acc, rp.get("seed"), rp.get("dialect", ""), rp.get("mechanism_free", False))


# ------------------------------------------------------------------------------------------------ micro-universe
# "all sequences of book / finish-and-release operations on one slot" (C01's quantifier): every small project of
# 2-3 sub-slot tasks on ONE resource, so that the tasks meet inside the same slots in every order the real scheduler
# can produce.  Complete in thorough, seeded 1/8 slice in quick.  Used by C01, C03 and C06.

MICRO_EFFORTS = (10, 20, 25, 30, 45, 60, 90)


def micro_universe():
    import itertools
    from datetime import datetime
    base = datetime(2025, 3, 3)
    idx = 0
    for n in (2, 3):
        pairs = [(i, j) for i in range(n) for j in range(n) if i != j]
        from .c07 import _acyclic
        dags = [em for em in range(1 << len(pairs)) if _acyclic(n, [pairs[k] for k in range(len(pairs)) if (em >> k) & 1])]
        for em in dags:
            edges = [pairs[k] for k in range(len(pairs)) if (em >> k) & 1]
            for efforts in itertools.product(MICRO_EFFORTS, repeat=n):
                if n == 3 and sum(1 for e in efforts if e in (25, 90)) > 1:
                    continue      # keep the 3-task universe tractable: at most one "odd" effort
                for alap in (False, True):
                    for eff in (1.0, 0.5):
                        for gap in ((0,) if not edges else (0, 15)):
                            for prio_rev in (False, True):
                                yield idx, (n, edges, efforts, alap, eff, gap, prio_rev, base)
                                idx += 1


def micro_model(spec):
    n, edges, efforts, alap, eff, gap, prio_rev, base = spec
    m = dict(res=60, start=base, weeks=2, alap=alap, shifts={}, groups=[], pid="mu", resources=[dict(id="r0", eff=eff)])
    tasks = []
    for i in range(n):
        t = dict(path=("t%d" % i,), container=False, effort_min=efforts[i], alloc=["r0"], priority=(300 + 100 * i) if not prio_rev else (800 - 100 * i))
        deps = [dict(to=("t%d" % j,), **({"gap_min": gap} if gap else {})) for (a, j) in edges if a == i]
        if deps:
            t["deps"] = deps
        tasks.append(t)
    if alap:
        succ = {j for (a, j) in edges}
        for i, t in enumerate(tasks):
            if i not in succ:
                t["end"] = base + __import__("datetime").timedelta(days=4, hours=17)
    m["tasks"] = tasks
    gen.assign_decl(m)
    m["acyclic"] = True
    return m


def worker(job, acc):
    import signal
    import time
    from ..worker import CaseTimeout, generic_loop
    prop = job["prop"]
    t0 = time.time()
    if prop in ("C01", "C03", "C06"):
        W, w = job["nworkers"], job["widx"]
        done = True
        for idx, spec in micro_universe():
            if idx % W != w:
                continue
            if job["tier"] == "quick" and (idx * 2654435761 + job["seed"] * 97) % 8 != 0:
                continue
            if time.time() - t0 > job.get("budget_s", 600) * 0.5:
                acc.count("micro-universe-truncated-by-budget")
                done = False
                break
            m = micro_model(spec)
            signal.alarm(job.get("case_timeout", 30))
            try:
                run_text(prop, m, gen.render(m), acc, idx, "micro-universe", False, record=True)
                acc.count("cases")
                acc.count("micro-universe-cases")
            except CaseTimeout:
                acc.count("case-timeout")
            finally:
                signal.alarm(0)
        if done and job["tier"] == "thorough":
            acc.count("micro-universe-slice-complete")
    generic_loop(sys.modules[__name__], job, acc, t0)


import sys  # noqa: E402
