"""C12: same input, same output - independent of history, hash seed and process.

 * reference: every text of the pool is run in a FRESH interpreter under PYTHONHASHSEED in {0, 1, random};
 * histories: one interpreter per history executes a random sequence of operations over the pool
   (parse+schedule, parse of broken texts, parse(schedule=False) then schedule(), schedule() again, report
   generation twice, all interleaved); after every operation the result fingerprint (dates of all scenarios, ledgers,
   report cells) must equal the fresh-process fingerprint of that text;
 * M-state: process-wide state that could leak between runs (AttributeBase._mode, DataCache, cwd, environ, TjTime zone)
   is snapshotted around every operation and reported with a divergence so that it can be attributed."""
import collections
import contextlib
import glob
import io
import os
import random
import warnings

from .. import common, gen, pool
from ..worker import case_seed


GROUPS = {}   # index in pool -> sibling group id (filled by make_pool)


def make_pool(seed, n):
    """deterministic list of texts; includes texts that fail to parse and texts with unschedulable tasks"""
    out = []
    GROUPS.clear()
    kinds = [dict(subslot=True, tz=True), dict(core=True, subslot=False), dict(subslot=True, alap=True), dict(subslot=False, limits=True, tasklimits=True, overrun=True, weeks=(1, 2)),
             dict(subslot=True, alts=True, teams=True), dict(subslot=True, tz=True, odd_zones=True, aligned=False)]
    i = 0
    while len(out) < n:
        cs = case_seed(seed, 4242, i)
        i += 1
        rnd = random.Random(cs)
        m = gen.gen(rnd, **kinds[i % len(kinds)])
        if not m["acyclic"] and i % 5:
            continue
        if i % 3 == 0 and m["resources"]:
            # make sure sibling groups exercise zone-dependent calendars
            r0 = m["resources"][0]
            if not r0.get("tz"):
                r0["tz"] = rnd.choice(["Asia/Tokyo", "America/New_York", "Europe/Berlin"])
            if "shift" not in r0 and "inline" not in r0:
                r0["inline"] = [(0, 4, [(8 * 60, 12 * 60), (13 * 60, 17 * 60)])]
        scen = None
        if i % 4 == 0:
            scen = ['scenario plan "p" {', '  scenario delayed "d"', "}"]
            for t in m["tasks"]:
                if "effort_min" in t and rnd.random() < 0.5:
                    t["sc_effort"] = {"delayed": t["effort_min"] + m["res"]}
        trailer = ""
        if i % 2 == 0:
            trailer = ('taskreport rep%d "rep%d" {\n  formats json, csv\n  columns id, name, start, end, effort\n%s}\n' %
                       (i, i, '  timeformat "%Y-%m-%d %H:%M"\n' if i % 4 == 0 else ""))
        text = gen.render(m, scenarios=scen, trailer=trailer)
        k = i % 11
        if k == 3:
            text = text.replace("{", "{{", 1)                       # syntax error
        elif k == 7:
            text = text.replace("allocate r0", "allocate ghost", 1)  # unknown resource
        elif k == 9:
            text = text[: len(text) // 2]                              # truncated
        GROUPS[len(out)] = i
        out.append(text)
        # siblings: same ids, same start date, same zones - but one aspect differs. Caches or memo tables keyed by a
        # partial identity (slot index, start date, resource/task/shift id, zone) collide between such texts.
        if i % 3 == 0 and k not in (3, 7, 9) and len(out) < n:
            import copy
            m2 = copy.deepcopy(m)
            kind = (i // 3) % 4
            if kind == 0:
                m2["res"] = {60: 30, 30: 15, 15: 60, 10: 30, 5: 15}.get(m["res"], 30)
            elif kind == 1:
                for sid in list(m2["shifts"]):
                    m2["shifts"][sid] = [(d0, d1, [(max(0, s0 - 60), e0) if e0 > s0 else (s0, e0) for s0, e0 in ivs]) for d0, d1, ivs in m2["shifts"][sid]]
                for r in m2["resources"]:
                    if "inline" in r:
                        r["inline"] = [(d0, d1, [(s0, min(1439, e0 + 60)) if e0 > s0 else (s0, e0) for s0, e0 in ivs]) for d0, d1, ivs in r["inline"]]
                    r["eff"] = {1.0: 0.5, 0.5: 1.0}.get(r["eff"], r["eff"])
            elif kind == 2:
                for t in m2["tasks"]:
                    if "effort_min" in t:
                        t["effort_min"] += m2["res"]
                for r in m2["resources"]:
                    if r.get("limits"):
                        r["limits"] = {k2: v + 1 for k2, v in r["limits"].items()}
                    elif r.get("tz"):
                        r["tz"] = "Asia/Tokyo" if r["tz"] != "Asia/Tokyo" else "Europe/Berlin"
            else:
                m2["alap"] = not m2["alap"]
                for t in m2["tasks"]:
                    t.pop("start", None)
                    t.pop("end", None)
                    for d in t.get("deps", []):
                        d.pop("onstart", None)
            GROUPS[len(out)] = i
            out.append(gen.render(m2, scenarios=scen, trailer=trailer))
    # tasks that cannot be completed (task-level limits, never-working resource, bound past the horizon): a repeated
    # schedule() must not retry them on top of what their first attempt left in the ledgers (sensitivity probe
    # C12-no-idempotence-guard)
    out.append('project f1 "F" 2025-03-03 +1w {\n  timezone "Etc/UTC"\n}\nresource r "r" {}\nresource q "q" {}\n'
               'task starved "s" {\n  effort 200h\n  allocate r\n  limits { dailymax 1h }\n}\n'
               'task pair "p" {\n  effort 90h\n  allocate r, q\n  limits { weeklymax 6h }\n  priority 800\n}\n'
               'task ok "o" {\n  effort 3h\n  allocate q\n  depends starved\n}\n'
               'taskreport rf1 "rf1" {\n  formats csv\n  columns id, start, end\n}\n')
    out.append('project f2 "F" 2025-03-03 +2w {\n  timezone "Etc/UTC"\n  timingresolution 30min\n}\nresource r "r" {\n  leaves annual 2025-03-03 - 2026-03-03\n}\nresource q "q" {}\n'
               'task g "g" {\n  limits { dailymax 2h }\n  task never "n" {\n    effort 4h\n    allocate r\n  }\n  task slow "s" {\n    effort 300h\n    allocate q\n  }\n}\n'
               'task late "l" {\n  effort 2h\n  allocate q\n  start 2025-09-01\n}\n')
    # report definitions the message handler reports as ERRORS (invalid character, empty name): whatever state that
    # leaves behind must not change what the next, good project does (seeded change C12-d read the error counter of
    # the process-wide message handler singleton)
    good_ = 'project e%d "E" 2025-03-03 +2w {\n  timezone "Etc/UTC"\n}\nresource r "r" {}\ntask a "a" {\n  effort 2d\n  allocate r\n}\n'
    out.append(good_ % 1 + 'taskreport bad "what?" {\n  formats csv\n  columns id, start\n}\n')
    out.append(good_ % 2 + 'taskreport esc "../escape" {\n  formats json\n  columns id, start\n}\n')
    out.append(good_ % 3 + 'taskreport fine "fine" {\n  formats json, csv\n  columns id, start, end\n}\n')
    # settings that change how OTHER values are read (working day length, efforts in days and weeks): whatever one project
    # declares must not stick to the interpreter (seeded change C12-f kept the hours per 'd' in a class-level table)
    for _k in range(3):
        GROUPS[len(out) + _k] = -777          # the three texts below are siblings: histories that touch one prefer the others next
    out.append('project d6 "D" 2025-01-06 +4w {\n  timezone "Etc/UTC"\n  dailyworkinghours 6\n  yearlyworkingdays 200\n}\nresource r "r" {}\n'
               'task t "t" {\n  effort 2d\n  allocate r\n}\ntask u "u" {\n  effort 1w\n  allocate r\n  depends t\n}\n')
    out.append('project d7 "D" 2025-01-06 {\n  dailyworkinghours 7\n}\nresource r "r" {}\ntask t "t" {\n  effort 2d\n  allocate r\n}\n')      # rejected (no duration), after the header was read
    out.append('project dd "D" 2025-01-06 +6w {\n  timezone "Etc/UTC"\n}\nresource r "r" {}\n'
               'task t "t" {\n  effort 2d\n  allocate r\n}\ntask u "u" {\n  effort 1w\n  allocate r\n  depends t\n}\ntask v "v" {\n  effort 3h\n  allocate r\n  depends u { gapduration 1d }\n}\n')
    # ties between several candidates (seeded change C12-c: alternatives iterated as a set of id strings): the primary is
    # away, several idle alternatives with identical calendars tie; whatever breaks the tie must not be the hash seed
    for k, names in enumerate((["zeta", "alpha", "kappa", "beta", "omega", "delta"], ["r9", "r10", "r2", "r33", "r4", "r51"])):
        a = names
        out.append(('project h%d "H" 2025-03-03 +4w {\n  timezone "Etc/UTC"\n}\nresource main "m" {\n  leaves annual 2025-03-03 - 2025-03-21\n}\n' % k)
                   + "".join('resource %s "%s" {}\n' % (x, x) for x in a)
                   + 'task w1 "w1" {\n  effort 3d\n  allocate main { alternative %s }\n}\n' % ", ".join(a)
                   + 'task w2 "w2" {\n  effort 2d\n  allocate main { alternative %s }\n  priority 400\n}\n' % ", ".join(reversed(a))
                   + 'task w3 "w3" {\n  effort 2d\n  allocate main { alternative %s }\n  priority 300\n}\n' % ", ".join(a[2:] + a[:2])
                   + "".join('task u%d "u%d" {\n  effort 1d\n  allocate %s\n  priority 200\n}\n' % (j, j, x) for j, x in enumerate(a[:4]))
                   + 'task w4 "w4" {\n  effort 1d\n  allocate main { alternative %s }\n  priority 100\n  depends w1\n}\n' % ", ".join(a[1:5]))
    # texts outside my generator's dialect: random derivations of the repo's own grammar (statements of every kind
    # embedded in a small valid project); whatever they do - schedule, fail, reject - they must do it every time
    try:
        from .. import gramfuzz
        G = gramfuzz.load()
        nts = [x for x in ("task", "task", "resource", "shift", "taskreport", "global_attribute") if x in G["rules"]]
        grnd = random.Random(case_seed(seed, 777, 0))
        k = 0
        while k < max(4, n // 5):
            t = gramfuzz.embed(grnd, grnd.choice(nts))
            if "${now}" in t or "${today}" in t or len(t) > 6000:
                continue
            out.append(t)
            k += 1
    except ImportError:
        pass
    fx = sorted(glob.glob(os.path.join(common.REPO, "tests", "data", "*.tjp")))
    for f in fx[: max(2, n // 8)]:
        try:
            t = open(f).read()
        except OSError:
            continue
        if "${now}" in t or "${today}" in t or len(t) > 20000:
            continue
        out.append(t)
    return out


def _quiet():
    return contextlib.ExitStack()


def fp_project(p):
    rows = []
    for sc in range(p.scenarioCount()):
        for t in p.tasks:
            rows.append((t.fullId, sc, bool(t.get("scheduled", sc)), str(t.get("start", sc)), str(t.get("end", sc))))
        for r in p.resources:
            rs = r.data[sc] if r.data else None
            if rs is not None:
                rows.append((r.fullId, sc, sorted((i, [(t.fullId, round(s, 6)) for t, s in lst]) for i, lst in rs.slotTaskUsage.items())))
    rows.append(("end", str(p["end"])))
    return common.h12(repr(rows))


def fp_reports(p):
    rows = []
    for rep in p.reports:
        try:
            rep.generate_intermediate_format()
            rows.append((rep.id, repr(rep.to_json()), repr(rep.to_csv())))
        except BaseException as e:
            rows.append((rep.id, "EXC:" + type(e).__name__))
    return common.h12(repr(rows))


def state_snapshot():
    snap = {}
    try:
        from scriptplan.core.property import AttributeBase
        snap["AttributeBase._mode"] = AttributeBase._mode
    except Exception:
        pass
    try:
        from scriptplan.utils.data_cache import DataCache
        inst = getattr(DataCache, "_instance", None)
        snap["DataCache"] = None if inst is None else len(getattr(inst, "_cache", getattr(inst, "cache", {})) or {})
    except Exception:
        pass
    snap["cwd"] = os.getcwd()
    snap["TZ"] = os.environ.get("TZ")
    snap["nenv"] = len(os.environ)
    return snap


def do_parse(text, schedule=True):
    from scriptplan.parser.tjp_parser import ProjectFileParser
    err = io.StringIO()
    with contextlib.redirect_stderr(err), contextlib.redirect_stdout(io.StringIO()), warnings.catch_warnings():
        warnings.simplefilter("ignore")
        try:
            p = ProjectFileParser().parse(text, schedule=schedule)
            return p, None
        except BaseException as e:
            while hasattr(e, "orig_exc") and e.orig_exc is not None:
                e = e.orig_exc
            return None, "EXC:" + type(e).__name__


def fp_cli(text):
    """the in-process command-line path (scriptplan.cli.main.run_scriptplan, the function behind 'plan report'):
    success flag + names and bytes of the files it wrote"""
    import hashlib
    import shutil
    import tempfile
    d = tempfile.mkdtemp(prefix="c12cli-", dir=common.WORK)
    try:
        src = os.path.join(d, "in.tjp")
        out = os.path.join(d, "out")
        os.makedirs(out)
        open(src, "w", encoding="utf-8").write(text)
        try:
            from scriptplan.cli.main import run_scriptplan
            ok, _msg = quietly(lambda: run_scriptplan(src, out))
        except BaseException as e:
            return "CLI-EXC:" + type(e).__name__
        files = []
        for base, _dirs, names in os.walk(out):
            for n in sorted(names):
                files.append((os.path.relpath(os.path.join(base, n), out), hashlib.sha256(open(os.path.join(base, n), "rb").read()).hexdigest()[:12]))
        return common.h12(repr((bool(ok), sorted(files))))
    finally:
        shutil.rmtree(d, ignore_errors=True)


def quietly(f):
    with contextlib.redirect_stderr(io.StringIO()), contextlib.redirect_stdout(io.StringIO()), warnings.catch_warnings():
        warnings.simplefilter("ignore")
        return f()


def worker(job, acc):
    role = job["params"]["role"]
    texts = make_pool(job["seed"], job["params"]["npool"])
    if role == "fresh":
        # ONE text in this fresh interpreter
        ti = job["params"]["text"]
        p, exc = do_parse(texts[ti])
        fp = exc if p is None else fp_project(p) + "/" + quietly(lambda: fp_reports(p))
        acc.notes.append("FRESH " + common.dumps(dict(text=ti, hashseed=job["params"].get("label") or job.get("hashseed"), fp=fp, cli=fp_cli(texts[ti]))))
        acc.count("fresh-runs")
        return
    # ---- history
    rnd = random.Random(case_seed(job["seed"], 99, job["params"]["hist"]))
    n_ops = rnd.randint(2, job["params"]["maxlen"])
    log = []
    touched = set()
    last = None   # (text index, project)
    for step in range(n_ops):
        op = rnd.choice(["parse", "parse", "parse", "parse-noschedule-then-schedule", "reschedule", "reports-twice", "parse-same-again", "cli-run"])
        before = state_snapshot()
        if op == "cli-run":
            ti = rnd.randrange(len(texts))
            if touched and rnd.random() < 0.4:
                sibs = [x for x, gg in GROUPS.items() if gg == rnd.choice(sorted(touched))]
                ti = rnd.choice(sibs) if sibs else ti
            fp = fp_cli(texts[ti])
        elif op in ("parse", "parse-noschedule-then-schedule", "parse-same-again") or last is None:
            ti = rnd.randrange(len(texts)) if not (op == "parse-same-again" and last) else last[0]
            if op != "parse-same-again" and touched and rnd.random() < 0.5:
                # prefer a sibling (same ids / start / zones, one aspect different) of a text this interpreter has seen
                g = rnd.choice(sorted(touched))
                sibs = [x for x, gg in GROUPS.items() if gg == g]
                if sibs:
                    ti = rnd.choice(sibs)
            touched.add(GROUPS.get(ti, -ti - 1))
            if op == "parse-noschedule-then-schedule":
                p, exc = do_parse(texts[ti], schedule=False)
                if p is not None:
                    try:
                        quietly(p.schedule)
                    except BaseException as e:
                        p, exc = None, "EXC:" + type(e).__name__
            else:
                p, exc = do_parse(texts[ti])
            fp = exc if p is None else fp_project(p) + "/" + quietly(lambda: fp_reports(p))
            if p is not None:
                last = (ti, p)
        elif op == "reschedule":
            ti, p = last
            try:
                quietly(p.schedule)
                fp = fp_project(p) + "/" + quietly(lambda: fp_reports(p))
            except BaseException as e:
                fp = "EXC-RESCHEDULE:" + type(e).__name__
        else:  # reports-twice
            ti, p = last
            a = quietly(lambda: fp_reports(p))
            b = quietly(lambda: fp_reports(p))
            fp = fp_project(p) + "/" + b
            if a != b:
                fp = "REPORTS-DIFFER:" + a + ":" + b
        after = state_snapshot()
        log.append(dict(step=step, op=op, text=ti, fp=fp, state_changed={k: (before.get(k), after.get(k)) for k in after if before.get(k) != after.get(k)}))
        acc.count("ops")
        acc.count("op:" + op)
    acc.notes.append("HIST " + common.dumps(dict(hist=job["params"]["hist"], hashseed=job.get("hashseed"), log=log)))
    acc.count("histories")


def drive(prop, tier, seed, cfg):
    tc = cfg[tier]
    npool = tc["pool"]
    texts = make_pool(seed, npool)
    jobs = []
    base = dict(prop="C12", module="vlib.props.c12", tier=tier, seed=seed, nworkers=1, ncases=0, ext="pure", hard_timeout=600)
    seeds = ["0", "1", "random"]
    for hs in seeds:
        for ti in range(len(texts)):
            jobs.append(dict(base, widx=ti, hashseed=hs, params=dict(role="fresh", npool=npool, text=ti)))
    # ... and under other process time zones (the project text fixes every clock it needs; seeded change C12-e let a
    # naive datetime pick up the local zone of the process)
    zones = ["Asia/Tokyo", "America/Los_Angeles", "Pacific/Kiritimati", "Europe/Berlin"]
    for ti in range(len(texts)):
        z = zones[ti % len(zones)]
        jobs.append(dict(base, widx=ti, hashseed="0", env={"TZ": z}, params=dict(role="fresh", npool=npool, text=ti, label="0+TZ=" + z)))
    for h in range(tc["histories"]):
        jobs.append(dict(base, widx=h, hashseed=seeds[h % 3], ext=("pure" if h % 2 else "intree"),
                         params=dict(role="history", npool=npool, hist=h, maxlen=tc["maxlen"])))
    results = pool.run_jobs(jobs, common.NCPU, tag="C12")
    from .. import main as M
    C, sigs, viols, vc, samples, wnotes, status = M.merge(results)
    fresh = collections.defaultdict(dict)
    fresh_cli = collections.defaultdict(dict)
    hists = []
    notes = []
    for n in wnotes:
        if n.startswith("FRESH "):
            d = common.loads(n[6:])
            fresh[d["text"]][d["hashseed"]] = d["fp"]
            fresh_cli[d["text"]][d["hashseed"]] = d.get("cli")
        elif n.startswith("HIST "):
            hists.append(common.loads(n[5:]))
        else:
            notes.append(n)

    def add(clause, detail, rp):
        vc[("C12", clause, ())] += 1
        if sum(1 for v in viols if v.get("clause") == clause) < 4:
            viols.append(dict(prop="C12", clause=clause, detail=common.plain(detail), mechs=[], replay=rp))
    # (1) fresh runs agree across hash seeds
    ref = {}
    for ti, d in fresh.items():
        vals = set(d.values())
        ref[ti] = d.get("0")
        C["fresh-comparisons"] += len(d)
        if len(vals) > 1:
            add("fresh-result-depends-on-hash-seed-or-process-time-zone", dict(text=ti, fps=d), dict(property="C12", clause="fresh-result-depends-on-hash-seed-or-process-time-zone", text=texts[ti]))
    ref_cli = {}
    for ti, d in fresh_cli.items():
        ref_cli[ti] = d.get("0")
        C["fresh-cli-comparisons"] += len(d)
        if len(set(d.values())) > 1:
            add("fresh-cli-result-depends-on-hash-seed-or-process-time-zone", dict(text=ti, fps=d), dict(property="C12", clause="fresh-cli-result-depends-on-hash-seed-or-process-time-zone", text=texts[ti]))
    # (2) every operation of every history equals the fresh result of that text
    for h in hists:
        prev = None
        for e in h["log"]:
            C["history-comparisons"] += 1
            want = ref_cli.get(e["text"]) if e["op"] == "cli-run" else ref.get(e["text"])
            sigs.add(common.dumps(("C12", prev, e["op"], (want or "").startswith("EXC"), len(texts[e["text"]]) // 400)))
            if want is not None and e["fp"] != want:
                add("result-depends-on-history:" + e["op"], dict(history=h["hist"], step=e["step"], op=e["op"], text=e["text"], got=e["fp"], fresh=want,
                                                                  previous_ops=[(x["op"], x["text"]) for x in h["log"][:e["step"]]][-6:],
                                                                  state_changed=e["state_changed"]),
                    dict(property="C12", clause="result-depends-on-history", text=texts[e["text"]],
                         history=[(x["op"], texts[x["text"]]) for x in h["log"][:e["step"] + 1]]))
            prev = e["op"]
    C["cases"] = C.get("histories", 0) + C.get("fresh-runs", 0)
    C["nontrivial"] = len(sigs)
    C["pool-texts"] = len(texts)
    C["pool-texts-failing"] = sum(1 for v in ref.values() if v and v.startswith("EXC"))
    if hists:
        h = hists[0]
        samples.append(common.plain(dict(history=[(e["op"], e["text"], e["fp"][:40]) for e in h["log"][:8]], hashseed=h["hashseed"],
                                         first_text=texts[h["log"][0]["text"]][:600])))
    return dict(C=C, sigs=sigs, viols=viols, vc=vc, samples=samples, notes=notes, status=status, nworkers=common.NCPU)


def replay(prop, rp, acc):
    if rp.get("history"):
        last = None
        for op, text in rp["history"]:
            p, exc = do_parse(text)
            last = exc if p is None else fp_project(p) + "/" + quietly(lambda: fp_reports(p))
        fresh_p, exc = do_parse(rp["text"])
        print("after history:", last)
    else:
        p, exc = do_parse(rp["text"])
        print("fingerprint:", exc if p is None else fp_project(p))
