"""C07: ASAP schedules equal the priority-ordered earliest-fit schedule (reference list scheduler + M-pick law).
Random core-dialect projects plus an exhaustive small universe (full in thorough, seeded 1/12 slice in quick)."""
import itertools
import random
import signal
import time
from datetime import datetime, timedelta

from .. import common, gen, indep, monitors, oracles, refsched
from ..worker import CaseTimeout, case_seed
from . import sched


def setup(job, acc):
    monitors.install_all()


def pick_order_violations(m, events, obs):
    """M-pick law: every pick is the minimum (-priority, declaration) among leaves that are ready according to the
    model's edges and the monitor's own record of completed picks; at the end no ready leaf may be left unpicked."""
    tm = gen.tmap(m)
    leaves = {indep.tid(t["path"]): t for t in m["tasks"] if not t["container"]}
    picks = [e["t"] for e in events if e["k"] == "pick" and e.get("sc", 0) == 0]
    placed = {tid_: True for tid_ in leaves if tid_ not in picks and obs.T[tid_]["sch"]}   # pre-placed (pinned milestones)
    failed = set()

    def under(path):
        return [indep.tid(t["path"]) for t in m["tasks"] if not t["container"] and t["path"][:len(path)] == path]

    def ready(t):
        for d in gen.all_deps(m, t, tm):
            for x in under(d["to"]):
                if x not in placed or x in failed:
                    return False
        return True
    out = []
    key = lambda t: (-indep.eff_priority(m, t, tm), t["decl"])
    for tid_ in picks:
        t = leaves.get(tid_)
        if t is None:
            continue
        if not ready(t):
            out.append(("picked-before-ready", tid_))
        for uid, u in leaves.items():
            if uid in placed or uid == tid_ or uid in picks[:picks.index(tid_)]:
                continue
            if key(u) < key(t) and ready(u):
                out.append(("pick-order-inversion", dict(picked=tid_, should_have=uid)))
                break
        placed[tid_] = True
        if not obs.T[tid_]["sch"]:
            failed.add(tid_)
    for uid, u in leaves.items():
        if uid not in placed and ready(u):
            out.append(("ready-leaf-never-picked", uid))
    return out


def check_model(m, text, acc, cs, name, record=True):
    monitors.reset()
    try:
        p, err = sched.parse(text)
    except Exception as e:
        acc.count("engine-exception:" + type(e).__name__)
        acc.violation("C07", "engine-exception", dict(exc=repr(e)[:300]), [], dict(property="C07", clause="engine-exception", seed=cs, model=m, text=text))
        return
    events = list(monitors.EV)
    obs = oracles.Obs(p, 0)
    cals = indep.calendars(m)
    try:
        refs = []
        for pre in (True, False):
            refs.append(refsched.ref_schedule(m, obs.end, preplace_pinned_milestones=pre, cals=cals))
    except refsched.NotCore as e:
        acc.count("skipped-not-core")
        return
    ref, picks, max_slot, nslots = refs[0]
    if any(v is None for t, v in ref.items()) or max_slot >= nslots - 3:
        # the reference itself cannot place everything inside the engine's horizon: the horizon estimate is an
        # implementation detail, not the rule -> skipped and counted
        acc.count("skipped-reference-needs-more-horizon")
        return
    got = {tid_: ((o["start"], o["end"]) if o["sch"] else None) for tid_, o in obs.T.items()}
    acc.count("tasks-compared", len(ref))
    acc.count("ev:pick", sum(1 for e in events if e["k"] == "pick"))
    # Pinned milestones need nobody and have their date from the start: they count as placed before the priority loop
    # (variant 0).  Variant 1 (placing them in priority order) is computed only to COUNT how often the two readings
    # differ; accepting it would make a missing container roll-up before the loop unobservable (sensitivity probe
    # C07-no-preloop-rollup), so it is not accepted.
    bad = None
    diff = [k for k in refs[0][0] if refs[0][0][k] != got.get(k)]
    if diff:
        bad = (diff, refs[0][0])
    if refs[0][0] != refs[1][0]:
        acc.count("cases-where-variants-differ")
        if bad and not [k for k in refs[1][0] if refs[1][0][k] != got.get(k)]:
            acc.count("engine-matches-priority-order-variant-only")
    feats = (m["res"], len([t for t in m["tasks"] if not t["container"]]), max(len(t["path"]) for t in m["tasks"]),
             tuple(sorted({len(t.get("alloc", [])) for t in m["tasks"]})), bool(m["shifts"]),
             any(r.get("limits") for r in m["resources"]) or any(g.get("limits") for g in m.get("groups", [])),
             any(r.get("tz") for r in m["resources"]), sum(1 for t in m["tasks"] if t.get("deps")), tuple(picks[:6]) != tuple(sorted(picks[:6])))
    contention = len({tuple(t["alloc"]) for t in m["tasks"] if "alloc" in t}) < len([t for t in m["tasks"] if "alloc" in t])
    acc.count("nontrivial")
    acc.sig(("C07", name, feats, contention))
    if bad:
        diff, r = bad
        k = diff[0]
        rp = dict(property="C07", clause="differs-from-reference", seed=cs, dialect=name, model=m, text=text,
                  observed={x: got.get(x) for x in diff[:6]}, expected={x: r[x] for x in diff[:6]}) if record else None
        acc.violation("C07", "differs-from-reference", dict(task=k, engine=got.get(k), reference=r[k], ndiff=len(diff)), [], rp)
    for clause, detail in pick_order_violations(m, events, obs):
        rp = dict(property="C07", clause=clause, seed=cs, dialect=name, model=m, text=text, observed=detail) if record else None
        acc.violation("C07", clause, detail, [], rp)
    if record:
        acc.sample(dict(dialect=name, seed=cs, text=text, engine={k: v for k, v in list(got.items())[:6]}, reference_agrees=not bad,
                        picks=picks[:8]), limit=2)


# ---------------------------------------------------------------------------------------------- small universe

def universe():
    """every project of the bounded universe, as (index, model). <= 3 leaf tasks x effort {1,2} slots x priority
    {low, high} x every DAG x allocation among <= 2 resources x calendar {default, half-day, one leave day} x
    {flat, first two tasks in one container}"""
    base = datetime(2025, 3, 3)
    idx = 0
    for n in (2, 3):
        pairs = [(i, j) for i in range(n) for j in range(n) if i != j]       # edge: i depends on j; every labelled DAG
        for emask in range(1 << len(pairs)):
            if not _acyclic(n, [pairs[k] for k in range(len(pairs)) if (emask >> k) & 1]):
                continue
            for efforts in itertools.product((1, 2), repeat=n):
                for prios in itertools.product((200, 800), repeat=n):
                    for alloc in itertools.product((0, 1), repeat=n):
                        if alloc[0] != 0:
                            continue  # symmetry: first task on r0
                        for cal in (0, 1, 2):
                            for shape in (0, 1):
                                for lim in (0, 1):          # r0 under 'dailymax 2h'
                                    for pin in (0, 1):      # last task pinned to day 2, 10:00
                                        yield idx, (n, pairs, emask, efforts, prios, alloc, cal, shape, base, lim, pin)
                                        idx += 1


def _acyclic(n, edges):
    adj = {i: [j for a, j in edges if a == i] for i in range(n)}
    state = {}

    def dfs(u):
        state[u] = 1
        for v in adj[u]:
            if state.get(v) == 1 or (v not in state and not dfs(v)):
                return False
        state[u] = 2
        return True
    return all(dfs(i) for i in range(n) if i not in state)


def build_universe_model(spec):
    n, pairs, emask, efforts, prios, alloc, cal, shape, base, lim, pin = spec
    m = dict(res=60, start=base, weeks=6, alap=False, shifts={}, groups=[], pid="u")
    rs = [dict(id="r0", eff=1.0), dict(id="r1", eff=1.0)]
    if cal == 1:
        m["shifts"] = {"half": [(0, 4, [(9 * 60, 11 * 60)])]}
        rs[0]["shift"] = "half"
    elif cal == 2:
        rs[0]["leaves"] = [(base, None)]
    if lim:
        rs[0]["limits"] = {"dailymax": 2}
    m["resources"] = rs
    tasks = []
    if shape == 1:
        tasks.append(dict(path=("g",), container=True))
    paths = []
    for i in range(n):
        path = (("g",) if (shape == 1 and i < 2) else ()) + ("t%d" % i,)
        paths.append(path)
    order = sorted(range(n), key=lambda i: (0 if len(paths[i]) == 2 else 1, i)) if shape == 1 else list(range(n))
    for i in order:
        t = dict(path=paths[i], container=False, effort_min=60 * efforts[i], alloc=["r%d" % alloc[i]], priority=prios[i])
        deps = [dict(to=paths[j]) for k, (a, j) in enumerate(pairs) if a == i and (emask >> k) & 1]
        if deps:
            t["deps"] = deps
        if pin and i == n - 1:
            t["start"] = base + timedelta(days=1, hours=10)
        tasks.append(t)
    m["tasks"] = tasks
    gen.assign_decl(m)
    m["acyclic"] = True
    return m


def worker(job, acc):
    tier = job["tier"]
    seed = job["seed"]
    W = job["nworkers"]
    w = job["widx"]
    t0 = time.time()
    budget = job.get("budget_s", 600)
    # -- universe slice
    n_uni = 0
    exhaustive_done = True
    for idx, spec in universe():
        if idx % W != w:
            continue
        if tier == "quick" and (idx * 2654435761 + seed * 97) % 12 != 0:
            continue
        if time.time() - t0 > budget * 0.5:
            exhaustive_done = False
            acc.count("universe-truncated-by-budget")
            break
        m = build_universe_model(spec)
        signal.alarm(job.get("case_timeout", 30))
        try:
            check_model(m, gen.render(m), acc, idx, "universe", record=(n_uni < 2))
            acc.count("cases")
            acc.count("universe-cases")
        except CaseTimeout:
            acc.count("case-timeout")
        finally:
            signal.alarm(0)
        n_uni += 1
    if tier == "thorough" and exhaustive_done:
        acc.count("universe-slice-complete")
    # -- random core dialect
    for ci in range(job["ncases"]):
        if time.time() - t0 > budget:
            acc.count("truncated-by-budget", job["ncases"] - ci)
            break
        cs = case_seed(seed, w, ci)
        rnd = random.Random(cs)
        kw = dict(core=True, subslot=False, alap=False, alts=False, res_choices=(60, 60, 30, 15, 10), nres=(1, 3), ntasks=(2, 9),
                  tasklimits=(ci % 3 == 0), contention=(ci % 2 == 0), milestones=0.15, max_depth=3)
        if ci % 4 == 1:
            kw["group_p"] = 0.7
        m = gen.gen(rnd, **kw)
        if ci % 4 == 1 and m.get("groups"):
            # absences declared on resource groups, on SEVERAL levels at once: a member is away during every enclosing
            # group's absence, whether or not it (or a group in between) declares absences of its own (seeded change
            # C07-f walked up the groups only for resources that declare leaves themselves)
            for g in m["groups"]:
                if rnd.random() < 0.75:
                    s0 = m["start"].replace(hour=0, minute=0) + timedelta(days=rnd.randrange(0, 9))
                    g["leaves" if rnd.random() < 0.6 else "vacs"] = [(s0, None) if rnd.random() < 0.5 else (s0, s0 + timedelta(days=rnd.randint(1, 3)))]
            acc.count("cases-with-group-absences")
        if ci % 6 == 0:
            # a container that is complete before the priority loop starts (all children pinned milestones), with a
            # high-priority task depending on it: the container must count as placed from the start
            leaves_ = [t for t in m["tasks"] if "effort_min" in t and not t.get("deps") and "start" not in t and len(t["path"]) == 1]
            if leaves_:
                pin = m["start"] + timedelta(days=rnd.randrange(0, 3), minutes=rnd.randrange(0, 12 * 60, m["res"]))
                m["tasks"].insert(0, dict(path=("gpin",), container=True))
                m["tasks"].insert(1, dict(path=("gpin", "mp"), container=False, milestone=True, start=pin, priority=rnd.choice([1, 100, 500])))
                t = rnd.choice(leaves_)
                t["deps"] = [dict(to=("gpin",))]
                t["priority"] = 1000
                gen.assign_decl(m)
                m["acyclic"] = gen.acyclic(m)
        if not m["acyclic"]:
            acc.count("skipped-cyclic")
            continue
        signal.alarm(job.get("case_timeout", 30))
        try:
            check_model(m, gen.render(m), acc, cs, "random-core")
            acc.count("cases")
            acc.count("random-cases")
        except CaseTimeout:
            acc.count("case-timeout")
            acc.notes.append("case-timeout seed=%d" % cs)
        finally:
            signal.alarm(0)
    for k, v in monitors.counts().items():
        acc.count("monitor:" + k, v)


def replay(prop, rp, acc):
    monitors.install_all()
    check_model(rp["model"], rp["text"], acc, rp.get("seed"), rp.get("dialect", ""))
