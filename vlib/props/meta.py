"""Relational properties decided by comparing two (or more) monitored runs of the real code:
C09 (low-priority intruder), C14 (whole-week shift), C15 (equivalent spellings), C16 (scenario independence)."""
import copy
import random
import re
from datetime import timedelta

from .. import common, gen, indep, monitors, oracles
from . import sched


def setup(job, acc):
    monitors.install_all()
    if job["prop"] == "C16":
        monitors.install_scen()


def dates(p, sc=0):
    return {t.fullId: (bool(t.get("scheduled", sc)), t.get("start", sc), t.get("end", sc)) for t in p.tasks}


def run(text):
    monitors.reset()
    p, err = sched.parse(text)
    return p, err, list(monitors.EV)


# =============================================================================================== C09

def c09_case(rnd, cs, job, acc):
    kinds = [dict(subslot=True, tz=False), dict(core=True, subslot=False), dict(subslot=False, tz=True, aligned=True),
             dict(subslot=True, tz=False, contention=True, nres=(1, 2)), dict(subslot=False, limits=True, tasklimits=True, tz=False),
             # alternatives: the choice between primary and alternative must not look at lower-priority demand (seeded change C09-a)
             dict(subslot=False, tz=False, leaves=False, limits=False, alts=True, nres=(2, 3), ntasks=(3, 7), teams=False, effs=[1.0]),
             dict(subslot=True, tz=False, alts=True, nres=(2, 4), ntasks=(3, 8))]
    kw = dict(rnd.choice(kinds))
    kw.setdefault("res_choices", (60, 60, 30, 15))
    m = gen.gen(rnd, **kw)
    if not m["acyclic"]:
        acc.count("skipped-cyclic")
        return
    for t in m["tasks"]:
        if t.get("priority") == 1:
            t["priority"] = 2
    if not m["alap"] and rnd.random() < 0.15:
        # backward-scheduled tasks inside a forward project ('scheduling alap' + end on a leaf with predecessors; the
        # predecessors are switched to backward mode too): an intruder that depends on one of them waits for it - a
        # backward task must not wait for a forward successor in turn
        cands = [t for t in m["tasks"] if not t["container"] and t.get("deps") and "start" not in t and "end" not in t]
        for t in rnd.sample(cands, min(len(cands), rnd.randint(1, 2))):
            t["task_alap"] = True
            t["end"] = m["start"] + timedelta(days=rnd.randint(4, 12), minutes=rnd.randrange(0, 24 * 60, m["res"]))
            for d in t["deps"]:
                d.pop("onstart", None)
            acc.count("bases-with-task-level-alap")
    scen = None
    if rnd.random() < 0.12:
        # the same with further (nested) scenarios: the intruder must not disturb any of them (seeded change C09-e shared
        # the resource limit counters between scenarios: the second scenario still saw the intruder's bookings of the first)
        scen = ['scenario plan "p" {', '  scenario alt "a" {', '    scenario deep "d"', "  }", "}"]
        acc.count("pairs-with-several-scenarios")
    text1 = gen.render(m, scenarios=scen)
    # ---- intruder: root-level leaf, strictly lowest priority, nothing depends on it
    m2 = copy.deepcopy(m)
    intr = {"path": ("zz_intruder",), "container": False, "priority": 1 if rnd.random() < 0.8 else 0}   # 0: below every value a task can have
    r = rnd.choice(m2["resources"])
    if rnd.random() < 0.1:
        intr["milestone"] = True
    else:
        intr["effort_min"] = rnd.choice([m["res"], 2 * m["res"], 7 * m["res"], 45, 600, 1200])
        intr["alloc"] = [r["id"]]
    if rnd.random() < 0.3 and not m["alap"]:
        intr["start"] = m["start"] + timedelta(days=rnd.randrange(0, 6), minutes=rnd.randrange(0, 24 * 60, m["res"]))
    if rnd.random() < (0.5 if any(t.get("task_alap") for t in m["tasks"]) else 0.15) and "start" not in intr and not m["alap"]:
        # the intruder may depend on others (nothing depends on IT): it waits for them and disturbs nobody. (Forward projects
        # only: in a backward project the roles of an edge are reversed - the predecessor is placed AFTER and in front of
        # its successor, so there something does depend on a task that names a predecessor)
        intr["deps"] = [{"to": rnd.choice(m2["tasks"])["path"]}]
        acc.count("intruders-with-dependencies")
    roots = [i for i, t in enumerate(m2["tasks"]) if len(t["path"]) == 1]
    pos = rnd.choice(roots + [len(m2["tasks"])])
    iid = "zz_intruder"
    if rnd.random() < 0.2:
        # the lowest priority is INHERITED: stated on a container two levels above the intruder (seeded change C09-f
        # handed inherited attributes down one level only, the intruder silently got the default 500)
        iid = "zz_wrap.zz_mid.zz_intruder"
        intr["path"] = ("zz_wrap", "zz_mid", "zz_intruder")
        wrap = {"path": ("zz_wrap",), "container": True, "priority": intr.pop("priority")}
        mid = {"path": ("zz_wrap", "zz_mid"), "container": True}
        m2["tasks"][pos:pos] = [wrap, mid, intr]
        acc.count("intruders-with-inherited-priority")
    else:
        m2["tasks"].insert(pos, intr)
    gen.assign_decl(m2)
    text2 = gen.render(m2, scenarios=scen)
    p1, _, ev1 = run(text1)
    d1, end1 = dates(p1), p1["end"]
    led1 = oracles.Obs(p1).led
    p2, _, ev2 = run(text2)
    d2, end2 = dates(p2), p2["end"]
    acc.count("pairs")
    if end1 != end2:
        acc.count("skipped-horizon-changed")   # the property's 'still fits the horizon' precondition, observed
        return
    # non-trivial: the intruder wants a resource-day that P uses
    obs2 = oracles.Obs(p2)
    days_p = {(rid, (idx * m["res"]) // 1440) for rid, d in led1.items() for idx in d}
    days_i = {(rid, (idx * m["res"]) // 1440) for rid, sl in obs2.per_task.get(iid, {}).items() for idx in sl}
    competes = bool(days_p & days_i)
    if competes:
        acc.count("nontrivial")
        acc.sig(("C09", m["alap"], m["res"], pos == len(m["tasks"]), pos == 0, "start" in intr, len(days_p & days_i) > 1,
                 any(r2.get("limits") for r2 in m["resources"]), len(m["resources"]), any(t.get("alt") for t in m["tasks"])))
    diff = [k for k in d1 if d1[k] != d2.get(k)]
    for sc in range(1, p1.scenarioCount() if scen else 1):
        e1, e2 = dates(p1, sc), dates(p2, sc)
        diff += ["%s [scenario %d]" % (k, sc) for k in e1 if e1[k] != e2.get(k)]
        d1.update({"%s [scenario %d]" % (k, sc): v for k, v in e1.items()})
        d2.update({"%s [scenario %d]" % (k, sc): v for k, v in e2.items()})
    rp = dict(property="C09", seed=cs, model=m, text=text1, text2=text2)
    if diff:
        k = diff[0]
        acc.violation("C09", "intruder-changed-other-task", dict(task=k, without=d1[k], with_intruder=d2.get(k), ndiff=len(diff), intruder=d2.get(iid)),
                      [], dict(rp, clause="intruder-changed-other-task"))
    picks = [e["t"] for e in ev2 if e["k"] == "pick"]
    acc.count("ev:pick", len(picks))
    if iid in picks and all(v[0] for k, v in d2.items() if k != iid) and picks[-1] != iid:
        acc.violation("C09", "intruder-not-picked-last", dict(picks=picks[-5:]), [], dict(rp, clause="intruder-not-picked-last"))
    acc.sample(dict(seed=cs, base=text1, intruder=common.plain(intr), position=pos, intruder_result=d2.get(iid), competes=competes,
                    others_unchanged=not diff), limit=2)
    # ---- corollary: two independent tasks competing for one resource: higher priority is served first
    if rnd.random() < 0.25:
        res = rnd.choice([60, 30, 15])
        pa, pb = rnd.sample([100, 300, 500, 700, 900], 2)
        ea, eb = rnd.choice([1, 3, 9]) * res, rnd.choice([1, 3, 9]) * res
        t = ('project c "C" 2025-03-03 +8w {\n  timezone "Etc/UTC"\n%s}\nresource r "r" {}\n' % ("" if res == 60 else "  timingresolution %dmin\n" % res) +
             'task a "a" { effort %dmin allocate r priority %d }\ntask b "b" { effort %dmin allocate r priority %d }\n' % (ea, pa, eb, pb))
        p3, _, _ = run(t)
        d3 = dates(p3)
        acc.count("corollary-cases")
        hi, lo = ("a", "b") if pa > pb else ("b", "a")
        if not (d3[hi][0] and d3[lo][0] and d3[hi][1] < d3[lo][1] and d3[hi][2] <= d3[lo][1]):
            acc.violation("C09", "higher-priority-not-served-first", dict(dates=d3, pa=pa, pb=pb), [], dict(property="C09", clause="higher-priority-not-served-first", text=t, model=None))


# =============================================================================================== C14

SHIFT_WEEKS = [1, 4, 26, 52, 53, 104, 157, 209, 313]


def shift_model(m, k):
    d = timedelta(weeks=k)
    m2 = copy.deepcopy(m)
    m2["start"] = m["start"] + d
    for r in m2["resources"]:
        for key in ("leaves", "vacs"):
            if key in r:
                r[key] = [(s + d, None if e is None else e + d) for s, e in r[key]]
        if "bookings" in r:
            r["bookings"] = [(s + d, mins) for s, mins in r["bookings"]]
    if "gleaves" in m2:
        m2["gleaves"] = [(typ, s + d, None if e is None else e + d) for typ, s, e in m2["gleaves"]]
    for g in m2.get("groups", []):
        for key in ("leaves", "vacs"):
            if key in g:
                g[key] = [(s + d, None if e is None else e + d) for s, e in g[key]]
    if "shift_leaves" in m2:
        m2["shift_leaves"] = {sid: [(s + d, None if e is None else e + d) for s, e in lst] for sid, lst in m2["shift_leaves"].items()}
    if "vacations" in m2:
        m2["vacations"] = [(s + d, None if e is None else e + d) for s, e in m2["vacations"]]
    for t in m2["tasks"]:
        for key in ("start", "end"):
            if key in t:
                t[key] = t[key] + d
    return m2


def c14_case(rnd, cs, job, acc):
    kinds = [dict(subslot=True), dict(core=True, subslot=False), dict(subslot=False, limits=True, tasklimits=True, overrun=True, weeks=(1, 3)),
             dict(subslot=False, limits=True, weeks=(1, 2), leaves=True), dict(subslot=True, alap=True)]
    kw = dict(rnd.choice(kinds))
    kw.update(tz=False, res_choices=(60, 60, 30, 15), special_start=0.5)
    if kw.get("subslot") and rnd.random() < 0.3:
        # slot lengths that divide neither an hour nor a week: the project's slot grid then starts at the PROJECT START and
        # nowhere else - pins, bounds and leave borders lie inside slots, and where inside depends on nothing but the
        # distance from the project start (seeded change C14-f numbered slots on an absolute grid)
        kw["res_choices"] = (11, 13, 25, 50, 7, 45)
    m = gen.gen(rnd, **kw)
    if not m["acyclic"]:
        acc.count("skipped-cyclic")
        return
    # weekend shifts with weekly limits are the design's hostile shape
    if rnd.random() < 0.3 and m["resources"]:
        r = m["resources"][0]
        r.pop("shift", None)
        r["inline"] = [(5, 6, [(8 * 60, 16 * 60)]), (0, 1, [(9 * 60, 12 * 60)])]
        r["limits"] = {"weeklymax": rnd.choice([4, 6, 10])}
    k = rnd.choice(SHIFT_WEEKS)
    if rnd.random() < 0.3:
        # aim the shifted window at Jan 1-3 of 2021/2027/2033, Dec 31, Feb 29
        from datetime import datetime
        target = rnd.choice([datetime(2027, 1, 1), datetime(2021, 1, 1), datetime(2033, 1, 1), datetime(2026, 12, 28), datetime(2028, 2, 28),
                             datetime(2032, 12, 27), datetime(2024, 12, 30)])
        k = max(1, int(round((target - m["start"]).days / 7.0)))
        if (m["start"] + timedelta(weeks=k)).year > 2036 or k > 700:
            k = rnd.choice(SHIFT_WEEKS)
    m2 = shift_model(m, k)
    t1, t2 = gen.render(m), gen.render(m2)
    p1, _, _ = run(t1)
    d1, e1 = dates(p1), p1["end"]
    p2, _, _ = run(t2)
    d2, e2 = dates(p2), p2["end"]
    acc.count("pairs")
    D = timedelta(weeks=k)
    bad = []
    for tid_, (s, a, b) in d1.items():
        s2, a2, b2 = d2.get(tid_, (None, None, None))
        if s != s2 or (a is None) != (a2 is None) or (b is None) != (b2 is None) or (a is not None and a + D != a2) or (b is not None and b + D != b2):
            bad.append((tid_, (s, a, b), (s2, a2, b2)))
    w2 = m2["start"]
    straddle = (w2.year != (w2 + timedelta(weeks=m.get("weeks", 2))).year, w2.isocalendar()[1] >= 52, w2.month == 2, w2.month == 1 and w2.day <= 3)
    haslim = any(r.get("limits") for r in m["resources"]) or any(g.get("limits") for g in m.get("groups", [])) or any(t.get("limits") for t in m["tasks"])
    acc.count("nontrivial")
    acc.sig(("C14", k if k in SHIFT_WEEKS else "aimed", straddle, haslim, m["alap"], m["res"], m["start"].weekday()))
    if bad:
        acc.violation("C14", "shifted-schedule-differs", dict(weeks=k, first=bad[0], ndiff=len(bad), horizon=(e1, e2)), [],
                      dict(property="C14", clause="shifted-schedule-differs", seed=cs, model=m, text=t1, text2=t2, weeks=k))
    acc.sample(dict(seed=cs, weeks=k, text=t1, shifted_start=m2["start"], first_tasks={k2: v for k2, v in list(d1.items())[:3]},
                    shifted={k2: v for k2, v in list(d2.items())[:3]}), limit=2)


# =============================================================================================== C15

HOSTILE_IDS = ["a", "ab", "abc", "t", "t1", "t10", "rev", "plan", "delayed", "task", "end", "x_1", "T", "tT", "a_", "m", "ms", "d", "res", "r", "r1",
               "r10", "shift1", "s", "alap", "start", "max", "id"]


def rename_model(rnd, m):
    """consistent renaming of task/resource/shift identifiers: prefixes of each other, local ids reused in different
    containers (and at root level), ids that look like keywords."""
    m2 = copy.deepcopy(m)
    # tasks: local id per (parent) namespace; reuse of local ids across namespaces is deliberate
    ren = {}
    used_by_parent = {}
    order = sorted(m2["tasks"], key=lambda t: len(t["path"]))
    newpath = {}
    for t in order:
        parent = t["path"][:-1]
        np_parent = newpath.get(parent, ())
        used = used_by_parent.setdefault(np_parent, set())
        cands = [x for x in HOSTILE_IDS if x not in used and x not in RESERVED]
        nid = rnd.choice(cands) if cands else "n%d" % len(used)
        used.add(nid)
        newpath[t["path"]] = np_parent + (nid,)
    for t in m2["tasks"]:
        for d in t.get("deps", []):
            d["to"] = newpath[d["to"]]
    for t in m2["tasks"]:
        t["path"] = newpath[t["path"]]
    # resources / groups / shifts: flat namespaces
    rmap = {}
    pool = [x for x in HOSTILE_IDS if x not in RESERVED]
    rnd.shuffle(pool)
    for r in m2["resources"]:
        rmap[r["id"]] = "R" + pool.pop() if rnd.random() < 0.5 else pool.pop() + "_r"
    for g in m2.get("groups", []):
        rmap[g["id"]] = "G" + pool.pop()
    smap = {sid: "S" + pool.pop() for sid in m2["shifts"]}
    for r in m2["resources"]:
        r["id"] = rmap[r["id"]]
        if r.get("group"):
            r["group"] = rmap[r["group"]]
        if "shift" in r:
            r["shift"] = smap[r["shift"]]
    for g in m2.get("groups", []):
        g["id"] = rmap[g["id"]]
        if g.get("parent"):
            g["parent"] = rmap[g["parent"]]
        if g.get("shift"):
            g["shift"] = smap[g["shift"]]
    m2["shifts"] = {smap[k]: v for k, v in m2["shifts"].items()}
    if "shift_leaves" in m2:
        m2["shift_leaves"] = {smap[k]: v for k, v in m2["shift_leaves"].items()}
    for t in m2["tasks"]:
        if "alloc" in t:
            t["alloc"] = [rmap[x] for x in t["alloc"]]
        if "alt" in t:
            t["alt"] = [rmap[x] for x in t["alt"]]
    gen.assign_decl(m2)
    return m2, {indep.tid(k): indep.tid(v) for k, v in newpath.items()}


# identifiers the grammar reserves as keywords cannot be used as ids at all (that is a parse rejection, not C15)
RESERVED = {"task", "end", "start", "alap", "max", "id"}


def shift_inline_swap(rnd, m):
    m2 = copy.deepcopy(m)
    n = 0
    for r in m2["resources"]:
        if "shift" in r and rnd.random() < 0.6:
            sid = r.pop("shift")
            r["inline"] = m2["shifts"][sid]
            # absences declared on the shift travel with it: as leaves of the resource they mean the same
            r["leaves"] = list(r.get("leaves", [])) + list(m2.get("shift_leaves", {}).get(sid, []))
            if not r["leaves"]:
                del r["leaves"]
            n += 1
        elif "inline" in r and rnd.random() < 0.6:
            sid = "xs%d" % len(m2["shifts"])
            m2["shifts"][sid] = r.pop("inline")
            r["shift"] = sid
            n += 1
    for g in m2.get("groups", []):
        # the same on a resource group (its members inherit the hours either way; seeded change C15-d ignored inherited
        # shift references)
        if g.get("shift") and not m2.get("shift_leaves", {}).get(g["shift"]) and rnd.random() < 0.6:
            # (a shift that carries leaves is left alone: as leaves of the GROUP they would also reach members that have
            #  hours of their own and never worked that shift - not the same meaning; false alarm #23)
            sid = g.pop("shift")
            g["inline"] = m2["shifts"][sid]
            n += 1
        elif g.get("inline") and rnd.random() < 0.6:
            sid = "xg%d" % len(m2["shifts"])
            m2["shifts"][sid] = g.pop("inline")
            g["shift"] = sid
            n += 1
    return m2, n


def comment_rewrite(rnd, text):
    out = []
    in_block = False
    for line in text.split("\n"):
        if in_block or ("/*" in line and "*/" not in line.split("/*", 1)[1]):
            # inside a multi-line block comment nothing may be inserted (block comments do not nest)
            in_block = "*/" not in (line.split("/*", 1)[1] if ("/*" in line and not in_block) else line)
            out.append(line)
            continue
        k = rnd.random()
        if k < 0.15:
            out.append('# comment { with " quote and ${macro} [x] }')
        elif k < 0.25:
            out.append("/* block } comment { */")
        elif k < 0.3:
            out.append("// task zz \"zz\" { effort 5h }")
        elif k < 0.4 and line.strip() and not line.rstrip().endswith('"'):
            line = line + "   // trailing ' comment"
        elif k < 0.5 and '"' not in line:
            line = "   " + line.replace(" ", "   ") + "\t"
        elif k < 0.6 and '"' not in line and "/*" not in line and "#" not in line and "//" not in line and "${" not in line:
            # a block comment is white space: it may stand where a blank stands, with nothing around it
            parts = line.strip().split(" ")
            if len(parts) >= 2:
                j = rnd.randrange(1, len(parts))
                line = line[: len(line) - len(line.lstrip())] + " ".join(parts[:j]) + "/* c */" + " ".join(parts[j:])
        elif k < 0.65:
            out.append("")
        out.append(line)
    return "\n".join(out)


def macro_rewrite(rnd, text):
    """move attribute lines, dates and values into macro definitions (with and without arguments)"""
    lines = text.split("\n")
    defs = []
    n = 0
    out = []
    hdr = re.search(r'^project \w+ "[^"]*" (\S+) \+', text, re.M)
    pstart = hdr.group(1) if hdr else None
    shared = rnd.random() < 0.4      # ONE parameterised macro for all moved efforts / dates: called again and again with different
    shared_defs = set()              # arguments (seeded change C15-f remembered the first call's substitution per macro NAME)
    for line in lines:
        s = line.strip()
        k = rnd.random()
        if pstart and k < 0.5 and re.match(r"^(start|end) %s$" % re.escape(pstart), s):
            # the built-in macro: a date equal to the project start (time of day included) is ${projectstart}
            out.append("  %s ${projectstart}" % s.split(" ")[0])
            n += 1
            continue
        mm = re.match(r"^(effort) (\d+min)$", s)
        if mm and k >= 0.4 and k < 0.5:
            # a macro with more than nine parameters: $1 must not be substituted inside $10 / $11
            name = "mW%d" % n
            n += 1
            filler = ["p%d" % i for i in range(1, 10)]
            if rnd.random() < 0.5:
                defs.append("macro %s [ effort $10 ]" % name)
                out.append("  ${%s %s %s}" % (name, " ".join(filler), mm.group(2)))
            else:
                defs.append("macro %s [ $11 $10 ]" % name)
                out.append("  ${%s %s %s effort}" % (name, " ".join(filler), mm.group(2)))
            continue
        md = re.match(r"^(start|end) (\S+)$", s)
        if mm and k < 0.4:
            name = "mE%d" % n
            n += 1
            if rnd.random() < 0.5:
                if shared:
                    name = "mEshared"
                    if name not in shared_defs:
                        shared_defs.add(name)
                        defs.append("macro mEinner [ effort $1 ]")
                        defs.append("macro %s [ ${mEinner $1} ]" % name if rnd.random() < 0.3 else "macro %s [ effort $1 ]" % name)
                else:
                    defs.append("macro %s [ effort $1 ]" % name)
                out.append("  ${%s %s}" % (name, mm.group(2)))
            else:
                defs.append("macro %s [ %s ]" % (name, s))
                out.append("  ${%s}" % name)
        elif md and k < 0.5:
            name = "mD%d" % n
            n += 1
            if rnd.random() < 0.5:
                defs.append("macro %s [%s]" % (name, md.group(2)))
                out.append("  %s ${%s}" % (md.group(1), name))
            else:
                if shared:
                    name = "mDshared"
                    if name not in shared_defs:
                        shared_defs.add(name)
                        defs.append("macro %s [ $1 $2 ]" % name)
                else:
                    defs.append("macro %s [ $1 $2 ]" % name)
                out.append("  ${%s %s %s}" % (name, md.group(1), md.group(2)))
        elif re.match(r"^(allocate|priority|depends|limits|efficiency|milestone)\b", s) and '"' not in s and k < 0.3 and "${" not in s:
            name = "mA%d" % n
            n += 1
            defs.append("macro %s [\n  %s\n]" % (name, s))
            out.append("  ${%s}" % name)
        else:
            out.append(line)
    # comments must stay inert next to macros: a comment that mentions a defined macro, a commented-out (re)definition of
    # a macro, and brackets / quotes inside a comment within a macro body
    if defs and rnd.random() < 0.5:
        # (a ']' inside a comment within a macro BODY is not used: macro bodies are raw text up to the matching bracket
        #  in TaskJuggler, so that spelling is not meaning-preserving by anybody's reading)
        k = rnd.randrange(4)
        name0 = re.match(r"macro (\w+)", defs[0]).group(1)
        if k == 3:
            # ... and a STRING that looks like a macro definition (a display name) is a string
            for li, line2 in enumerate(out):
                mo = re.match(r'^(\s*task \w+ )"([^"]*)"( \{)$', line2)
                if mo:
                    out[li] = '%s"was: macro %s [ effort 77777min ]"%s' % (mo.group(1), name0, mo.group(3))
                    break
        elif k == 0:
            out.insert(rnd.randrange(1, len(out) + 1), "# was: ${%s}" % name0)
        elif k == 1:
            defs.append("# macro %s [ effort 99999min ]" % name0)
        else:
            defs.append("/* macro %s [\n  effort 77777min\n] */" % name0)
            out.insert(rnd.randrange(1, len(out) + 1), "// ${%s} and ${undefined_thing}" % name0)
    # definitions must precede use in TaskJuggler; place them directly after the project header block
    res = []
    placed = False
    depth = 0
    for line in out:
        res.append(line)
        if not placed:
            depth += line.count("{") - line.count("}")
            if line.startswith("project") or depth > 0:
                continue
            if depth == 0 and res and res[0].startswith("project"):
                res.extend(defs)
                placed = True
    if not placed:
        res = defs + res
    return "\n".join(res), n


def c15_case(rnd, cs, job, acc):
    kinds = [dict(subslot=True), dict(core=True, subslot=False), dict(subslot=True, alap=True, teams=False), dict(subslot=False, max_depth=4, ntasks=(4, 10))]
    kw = dict(rnd.choice(kinds))
    kw.update(res_choices=(60, 60, 30, 15), tz=rnd.random() < 0.3, alts=rnd.random() < 0.3)
    ties = rnd.random() < 0.08
    if ties:
        kw.update(nres=(4, 6), teams=False, limits=False, alts=False, group_p=0.0)
    m = gen.gen(rnd, **kw)
    if not m["acyclic"]:
        acc.count("skipped-cyclic")
        return
    if ties and gen.make_ties(rnd, m):
        acc.count("tie-stratum")
    else:
        ties = False
    if not m["alap"] and rnd.random() < 0.15:
        # task-level ALAP below a container with an end date, in an ASAP project (terminal detection, anchors and the
        # backward propagation look tasks up by id: seeded change C15-e keyed them by the LOCAL id)
        conts = [t for t in m["tasks"] if t["container"] and "end" not in t]
        for c in rnd.sample(conts, min(len(conts), 2)):
            kids = [t for t in m["tasks"] if t["path"][:-1] == c["path"] and not t["container"] and "effort_min" in t and "start" not in t]
            if kids:
                c["end"] = m["start"] + timedelta(days=rnd.randint(6, 13), minutes=rnd.randrange(0, 24 * 60, m["res"]))
                k = rnd.choice(kids)
                k["task_alap"] = True
                for d in k.get("deps", []):
                    d.pop("onstart", None)
                acc.count("task-level-alap-below-dated-container")
    text1 = gen.render(m)
    p1, _, _ = run(text1)
    d1, end1 = dates(p1), p1["end"]
    rewrites = ["rename", "relref", "precedes", "shiftinline", "comments", "macros", "quotes"]
    chosen = [rnd.choice(rewrites)] if rnd.random() < 0.6 else rnd.sample(rewrites, rnd.randint(2, 4))
    if ties and "rename" not in chosen:
        chosen.append("rename")       # the order of the renamed ids differs from the order of the old ones
    m2 = m
    idmap = {k: k for k in d1}
    applied = []
    if "rename" in chosen:
        m2, idmap = rename_model(rnd, m2)
        applied.append("rename")
    if "shiftinline" in chosen:
        m2, n = shift_inline_swap(rnd, m2)
        if n:
            applied.append("shiftinline")
    refrnd = random.Random(cs + 1) if "relref" in chosen else None
    precrnd = random.Random(cs + 2) if "precedes" in chosen else None
    if refrnd is not None and any(t.get("deps") for t in m2["tasks"]):
        applied.append("relref")
    if precrnd is not None and any(t.get("deps") for t in m2["tasks"]):
        applied.append("precedes")
    text2 = gen.render(m2, refrnd=refrnd, precrnd=precrnd)
    if "macros" in chosen:
        text2, n = macro_rewrite(random.Random(cs + 3), text2)
        if n:
            applied.append("macros")
    if "comments" in chosen:
        text2 = comment_rewrite(random.Random(cs + 4), text2)
        applied.append("comments")
    if "quotes" in chosen:
        # the grammar knows two string delimiters: "x" and 'x' are the same string
        qr = random.Random(cs + 5)
        text3 = re.sub(r'"([^"\'\n\\${}\[\]]*)"', lambda mo: ("'%s'" % mo.group(1)) if qr.random() < 0.6 else mo.group(0), text2)
        if text3 != text2:
            text2 = text3
            applied.append("quotes")
    if not applied or text2 == text1:
        acc.count("skipped-no-rewrite-applicable")
        return
    try:
        p2, _, _ = run(text2)
    except Exception as e:
        acc.violation("C15", "rewritten-text-rejected", dict(exc=repr(e)[:300], rewrites=applied), [],
                      dict(property="C15", clause="rewritten-text-rejected", seed=cs, model=m, text=text1, text2=text2, rewrites=applied))
        return
    d2, end2 = dates(p2), p2["end"]
    acc.count("pairs")
    for a in applied:
        acc.count("rewrite:" + a)
    bad = [(k, d1[k], d2.get(idmap[k])) for k in d1 if d1[k] != d2.get(idmap[k])]
    feats = (tuple(sorted(applied)), m["alap"], max(len(t["path"]) for t in m["tasks"]), any(d.get("gap_min") for t in m["tasks"] for d in t.get("deps", [])),
             bool(m["shifts"]), any(t["container"] and t.get("deps") for t in m["tasks"]))
    acc.count("nontrivial")
    acc.sig(("C15",) + feats)
    if bad:
        acc.violation("C15", "rewritten-schedule-differs", dict(rewrites=applied, first=bad[0], ndiff=len(bad), horizon=(end1, end2)), [],
                      dict(property="C15", clause="rewritten-schedule-differs", seed=cs, model=m, text=text1, text2=text2, rewrites=applied, idmap=idmap))
    acc.sample(dict(seed=cs, rewrites=applied, original=text1, rewritten=text2, equal=not bad), limit=2)


# =============================================================================================== C16

def scen_tree(rnd):
    """list of (id, parent id) in declaration (pre)order; root first"""
    shapes = [
        [("plan", None)],
        [("plan", None), ("delayed", "plan")],
        [("plan", None), ("delayed", "plan"), ("worse", "delayed")],
        [("plan", None), ("delayed", "plan"), ("alt", "plan")],
        [("plan", None), ("delayed", "plan"), ("worse", "delayed"), ("alt", "plan")],
        [("plan", None), ("a1", "plan"), ("a2", "a1"), ("a3", "a2"), ("b1", "plan")],
    ]
    return rnd.choice(shapes)


def scen_lines(tree):
    kids = {}
    for sid, par in tree:
        kids.setdefault(par, []).append(sid)

    def emit(sid, ind):
        ch = kids.get(sid, [])
        if not ch:
            return ['%sscenario %s "%s"' % (ind, sid, sid)]
        out = ['%sscenario %s "%s" {' % (ind, sid, sid)]
        for c in ch:
            out += emit(c, ind + "  ")
        out.append(ind + "}")
        return out
    return emit(tree[0][0], "")


def effective(tree, overrides, sid):
    """value for scenario sid: own override, else the parent's effective value (None = base value)"""
    par = dict(tree)
    while sid is not None:
        if sid in overrides:
            return overrides[sid]
        sid = par[sid]
    return None


def c16_case(rnd, cs, job, acc):
    kinds = [dict(subslot=True, tz=False), dict(core=True, subslot=False), dict(subslot=False, limits=True, tasklimits=True, tz=False),
             dict(subslot=False, limits=True, overrun=True, weeks=(1, 2), tz=False)]
    kw = dict(rnd.choice(kinds))
    kw.update(res_choices=(60, 60, 30), alap=(rnd.random() < 0.25), ntasks=(2, 7), onstart=False)
    m = gen.gen(rnd, **kw)
    if not m["acyclic"]:
        acc.count("skipped-cyclic")
        return
    if not m["alap"] and rnd.random() < 0.35:
        # task-level ALAP anchors inside an ASAP project: 'scheduling alap' + end on a leaf with predecessors (the engine
        # switches the predecessors to backward mode - per scenario, since ends and pins can be scenario-specific;
        # seeded change C16-d cached the walk of the first scenario)
        cands = [t for t in m["tasks"] if not t["container"] and t.get("deps") and "start" not in t]
        for t in rnd.sample(cands, min(len(cands), rnd.randint(1, 2))):
            t["task_alap"] = True
            t["end"] = m["start"] + timedelta(days=rnd.randint(4, 12), minutes=rnd.randrange(0, 24 * 60, m["res"]))
            for d in t["deps"]:
                d.pop("onstart", None)
            acc.count("task-level-alap-anchors")
        tm_ = gen.tmap(m)
        for t in cands:
            if t.get("task_alap"):
                for d in t["deps"]:
                    pt = tm_.get(d["to"])
                    if pt and not pt["container"] and "start" not in pt and "end" not in pt and rnd.random() < 0.5:
                        pt["start"] = m["start"] + timedelta(days=rnd.randint(0, 3), minutes=rnd.randrange(0, 24 * 60, m["res"]))   # a pinned ASAP predecessor
    tree = scen_tree(rnd)
    sids = [s for s, _ in tree]
    m_multi = copy.deepcopy(m)
    n_over = 0
    for t in m_multi["tasks"]:
        if t["container"] or len(sids) == 1:
            continue
        if "effort_min" in t and rnd.random() < 0.4:
            t["sc_effort"] = {s: rnd.choice([1, 2, 5, 9]) * m["res"] for s in rnd.sample(sids[1:], rnd.randint(1, min(2, len(sids) - 1)))}
            n_over += 1
        if "start" in t and rnd.random() < 0.5:
            t["sc_start"] = {s: t["start"] + timedelta(days=rnd.randint(1, 3)) for s in rnd.sample(sids[1:], 1)}
            n_over += 1
        if "end" in t and rnd.random() < 0.5:
            t["sc_end"] = {s: t["end"] - timedelta(days=rnd.randint(1, 2)) for s in rnd.sample(sids[1:], 1)}
            n_over += 1
        if "start" not in t and "end" not in t and not m["alap"] and "effort_min" in t and rnd.random() < 0.12:
            # a pin that exists in ONE scenario only (no plain start at all)
            t["sc_start"] = {rnd.choice(sids[1:]): m["start"] + timedelta(days=rnd.randint(0, 5), minutes=rnd.randrange(0, 24 * 60, m["res"]))}
            n_over += 1
        if t.get("task_alap") and rnd.random() < 0.4:
            # ... and an ALAP anchor whose end exists in one scenario only
            t["sc_end"] = {rnd.choice(sids[1:]): t.pop("end")}
            n_over += 1
        if rnd.random() < 0.35:
            t["sc_first"] = True      # the scenario-specific lines stand in front of the plain ones
    text_multi = gen.render(m_multi, scenarios=scen_lines(tree))
    p, _, ev = run(text_multi)
    acc.count("multi-scenario-runs")
    online = [(n, d) for n, d in monitors.ONLINE if n.startswith("scen-")]
    acc.count("monitor:scen-entry", sum(1 for e in ev if e["k"] == "scenario-begin"))
    rp = dict(property="C16", seed=cs, model=m_multi, text=text_multi, tree=tree)
    for n, d in online[:3]:
        acc.violation("C16", n, d, [], dict(rp, clause=n))
    per_sc = [dates(p, i) for i in range(len(sids))]
    ends = p["end"]
    # (1) each scenario == the single-scenario project with its effective attributes
    bad = None
    hz = None
    for i, sid in enumerate(sids):
        ms = copy.deepcopy(m_multi)        # the plain attributes as written in the multi-scenario text ...
        for t, tmulti in zip(ms["tasks"], m_multi["tasks"]):
            for key in ("sc_effort", "sc_start", "sc_end", "sc_first"):
                t.pop(key, None)            # ... plus this scenario's effective overrides as plain attributes
            v = effective(tree, tmulti.get("sc_effort", {}), sid)
            if v is not None:
                t["effort_min"] = v
                t.pop("effort_inherited", None)     # the override is this task's OWN effort line in the single-scenario text
            v = effective(tree, tmulti.get("sc_start", {}), sid)
            if v is not None:
                t["start"] = v
            v = effective(tree, tmulti.get("sc_end", {}), sid)
            if v is not None:
                t["end"] = v
        ps, _, _ = run(gen.render(ms))
        acc.count("single-scenario-runs")
        if ps["end"] != ends:
            # the engine extends the project end from the efforts of scenario 0 only: a scenario whose own efforts need
            # a longer (or shorter) horizon is NOT scheduled as if it were the only one.  Known finding (mechanism
            # horizon-extension-from-scenario-0), reported per case, never skipped.
            acc.count("horizon-differs-from-single-scenario-project")
            ds = dates(ps, 0)
            diff = [(k, per_sc[i][k], ds[k]) for k in ds if ds[k] != per_sc[i][k]]
            if diff and not hz:
                hz = dict(scenario=sid, index=i, first=diff[0], ndiff=len(diff), horizon_multi=ends, horizon_alone=ps["end"])
            continue
        ds = dates(ps, 0)
        diff = [(k, per_sc[i][k], ds[k]) for k in ds if ds[k] != per_sc[i][k]]
        acc.count("scenario-comparisons")
        if diff and bad is None:
            nested = dict(tree)[sid] not in (None, sids[0])
            bad = dict(scenario=sid, index=i, first=diff[0], ndiff=len(diff), nested=nested)
    if bad:
        acc.violation("C16", "scenario-differs-from-single-scenario-project", bad, [], dict(rp, clause="scenario-differs-from-single-scenario-project"))
    if hz:
        acc.violation("C16", "scenario-differs-from-single-scenario-project", hz, ["horizon-extension-from-scenario-0"],
                      dict(rp, clause="scenario-differs-from-single-scenario-project"))
    # (2) a scenario without any override anywhere on its path == its parent
    par = dict(tree)
    for i, sid in enumerate(sids):
        if par[sid] is None:
            continue
        has_own = any(sid in t.get("sc_effort", {}) or sid in t.get("sc_start", {}) or sid in t.get("sc_end", {}) for t in m_multi["tasks"])
        if not has_own:
            j = sids.index(par[sid])
            if per_sc[i] != per_sc[j]:
                k = [x for x in per_sc[i] if per_sc[i][x] != per_sc[j][x]][0]
                acc.violation("C16", "scenario-without-overrides-differs-from-parent", dict(scenario=sid, parent=par[sid], task=k, got=per_sc[i][k], parent_has=per_sc[j][k]),
                              [], dict(rp, clause="scenario-without-overrides-differs-from-parent"))
                break
    acc.count("nontrivial")
    acc.sig(("C16", len(sids), max(len([1 for s2 in sids if _depth(tree, s2) > 1]), 0), n_over, m["res"],
             any(r.get("limits") for r in m["resources"]) or any(t.get("limits") for t in m["tasks"]), p["end"] > oracles.declared_end(m)))
    acc.sample(dict(seed=cs, text=text_multi, scenarios=sids, per_scenario={s: {k: v for k, v in list(per_sc[i].items())[:3]} for i, s in enumerate(sids)}), limit=2)


def _depth(tree, sid):
    par = dict(tree)
    d = 0
    while par[sid] is not None:
        sid = par[sid]
        d += 1
    return d


CASES = {"C09": c09_case, "C14": c14_case, "C15": c15_case, "C16": c16_case}


def run_case(rnd, cs, job, acc):
    try:
        CASES[job["prop"]](rnd, cs, job, acc)
    except (sched_parse_errors()) as e:
        acc.count("engine-exception:" + type(e).__name__)
        acc.violation(job["prop"], "engine-exception", dict(exc=repr(e)[:300]), [], dict(property=job["prop"], clause="engine-exception", seed=cs))


def sched_parse_errors():
    import lark
    return (lark.exceptions.LarkError, ValueError, TypeError, IndexError, KeyError, AttributeError, ZeroDivisionError, RecursionError)


def teardown(job, acc):
    for k, v in monitors.counts().items():
        acc.count("monitor:" + k, v)


def replay(prop, rp, acc):
    """re-run the recorded pair and compare again"""
    monitors.install_all()
    if prop == "C16":
        monitors.install_scen()
    t1, t2 = rp.get("text"), rp.get("text2")
    if prop == "C16":
        p, _, _ = run(t1)
        for n, d in monitors.ONLINE:
            if n.startswith("scen-"):
                acc.violation(prop, n, d, [], None)
        print("scenario results:", [common.plain(dates(p, i)) for i in range(p.scenarioCount())])
        return
    p1, _, _ = run(t1)
    d1 = dates(p1)
    if t2:
        p2, _, _ = run(t2)
        d2 = dates(p2)
        idmap = rp.get("idmap") or {k: k for k in d1}
        D = timedelta(weeks=rp.get("weeks", 0))
        for k in d1:
            a, b = d1[k], d2.get(idmap.get(k, k))
            if b is None or a[0] != b[0] or (a[1] is not None and a[1] + D != b[1]) or (a[2] is not None and a[2] + D != b[2]):
                acc.violation(prop, rp.get("clause", "differs"), dict(task=k, first=a, second=b), [], None)
                break
