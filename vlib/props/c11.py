"""C11: scheduling is total (bounded progress).  Fault enumeration over input classes, every case under
 * a logical step counter (sys.monitoring PY_START events) with a bound proportional to project size — the verdict on
   'terminates' is taken on steps, never on wall-clock; the per-case alarm is only a watchdog (inconclusive);
 * M-cursor / M-pick step bounds (cursor moves per task <= #slots + 2, picks <= #leaves);
 * outcome classification: project returned | parse rejection (lark error / ValueError) | internal error."""
import contextlib
import io
import random
import re
import signal
import sys
import time
import warnings
from datetime import timedelta

from .. import common, gen, monitors
from ..worker import CaseTimeout, case_seed
from . import sched

TOOL = 3   # sys.monitoring tool id (reserved range for user tools: 0..5; 3 is free in a plain interpreter)


class StepBound(BaseException):
    pass


STEPS = [0, 0]   # [count, bound]
GIANT_P = [0.02]


def _on_start(code, offset):
    STEPS[0] += 1
    if STEPS[0] > STEPS[1]:
        STEPS[1] = 1 << 62     # raise once
        raise StepBound()


def setup(job, acc):
    monitors.install_all()
    from scriptplan.core import project as pm
    real = pm.Project.warning

    def warning(self, *a, **k):
        monitors.COUNT["warning"] += 1
        monitors.EV.append(dict(k="warning", id=a[0] if a else None))
        return real(self, *a, **k)
    pm.Project.warning = warning
    mon = sys.monitoring
    mon.use_tool_id(TOOL, "verif-steps")
    mon.register_callback(TOOL, mon.events.PY_START, _on_start)


def steps_on(bound):
    STEPS[0] = 0
    STEPS[1] = bound
    sys.monitoring.set_events(TOOL, sys.monitoring.events.PY_START)


def steps_off():
    sys.monitoring.set_events(TOOL, 0)
    return STEPS[0]


# ------------------------------------------------------------------------------------------------ input classes

def cls_valid(rnd):
    kinds = [dict(subslot=True), dict(core=True, subslot=False), dict(subslot=True, alap=True), dict(subslot=False, limits=True, tasklimits=True, overrun=True, weeks=(1, 2)),
             dict(subslot=True, aligned=False, odd_zones=True, tz=True), dict(subslot=True, alts=True)]
    kw = dict(rnd.choice(kinds))
    kw.setdefault("res_choices", (60, 60, 30, 15, 10, 5))
    m = gen.gen(rnd, **kw)
    return m, gen.render(m)


def cls_cycle(rnd):
    m = gen.gen(rnd, subslot=False, ntasks=(3, 8), res_choices=(60, 30))
    leaves = [t for t in m["tasks"] if not t["container"]]
    a, b = rnd.sample(leaves, 2) if len(leaves) >= 2 else (leaves[0], leaves[0])
    a.setdefault("deps", []).append({"to": b["path"]})
    b.setdefault("deps", []).append({"to": a["path"]})
    a.pop("start", None)
    b.pop("start", None)
    if rnd.random() < 0.3:
        c = rnd.choice(leaves)
        c.setdefault("deps", []).append({"to": c["path"]})   # self-dependency
    return m, gen.render(m)


def cls_bounds_past_end(rnd):
    m = gen.gen(rnd, subslot=rnd.random() < 0.5, ntasks=(2, 6), res_choices=(60, 30), weeks=(1, 2), alap=rnd.random() < 0.4)
    for t in m["tasks"]:
        if t["container"]:
            continue
        k = rnd.random()
        far = m["start"] + timedelta(days=rnd.choice([15, 40, 400, 4000]))
        if k < 0.3 and not m["alap"]:
            t["start"] = far
        elif k < 0.5 and m["alap"]:
            t["end"] = far
        elif k < 0.7:
            for d in t.get("deps", []):
                d["gap_min"] = rnd.choice([24 * 60 * 30, 24 * 60 * 400])
        elif k < 0.8:
            t["start"] = m["start"] - timedelta(days=rnd.choice([1, 30]))
    return m, gen.render(m)


def cls_never_works(rnd):
    m = gen.gen(rnd, subslot=False, ntasks=(2, 6), res_choices=(60,), weeks=(1, 3))
    for r in m["resources"]:
        if rnd.random() < 0.6:
            r.pop("shift", None)
            k = rnd.random()
            if k < 0.4:
                r["inline"] = [(6, 6, [(2 * 60, 3 * 60)])]
                r["leaves"] = [(m["start"] - timedelta(days=3), m["start"] + timedelta(days=3000))]
            elif k < 0.7:
                r["leaves"] = [(m["start"], m["start"] + timedelta(days=5000))]
            else:
                r["limits"] = {"dailymax": 0}
    return m, gen.render(m)


def cls_efforts(rnd):
    m = gen.gen(rnd, subslot=False, ntasks=(1, 5), res_choices=(60, 30, 15), weeks=(1, 3))
    text = gen.render(m)
    if rnd.random() < GIANT_P[0]:
        # horizons of decades: tiny project, coarse resolution (cost is proportional to the horizon by design)
        g = rnd.choice(["100000h", "150000h", "20000d", "3y", "999w", "12345678min"])
        t = ('project p "P" 2025-03-03 +1w {\n  timezone "Etc/UTC"\n}\nresource r "r" {}\n'
             'task big "big" {\n  effort %s\n  allocate r\n}\ntask after "after" {\n  effort 3h\n  allocate r\n  depends big\n}\n' % g)
        return dict(res=60, giant=True), t
    big = rnd.choice(["0min", "0h", "1min", "0.5h", "900h", "5000h", "700d", "40w", "123456min", "99999999999h", "9999999999d",
                      # efforts below every tolerance: still work, not "done before anything is booked"
                      "0.000000001h", "0.0000000001h", "0.00000000001d", "0.000000001h"])
    k = rnd.random()
    if k < 0.25 and rnd.random() < 0.5:
        # 'flags contiguous' with a block that does not fit the free run in front of the task for a long stretch of the
        # walk (slow resource, long effort, short project): the probe must not count the same free run again for every slot
        # of it - the bound is proportional to the project's size, not to its square
        days = rnd.choice([20, 25, 40])
        hours = rnd.choice(["mon - sun 00:00 - 24:00", "mon - sat 00:00 - 24:00", "mon - sun 02:00 - 23:00"])
        alloc = rnd.choice(["  allocate r\n", "  allocate r\n", ""])
        t = ('project p "P" 2025-03-03 +2w {\n  timezone "Etc/UTC"\n%s}\nresource r "r" {\n  efficiency %s\n  workinghours %s\n}\n'
             'task t "t" {\n  effort %dd\n%s  flags contiguous\n}\ntask u "u" {\n  effort 3h\n  allocate r\n  depends t\n}\n'
             % (rnd.choice(["", "  workinghours %s\n" % hours]), rnd.choice(["0.1", "0.2", "0.05"]), hours, days, alloc))
        return dict(res=60), t
    if k < 0.25:
        # 'flags contiguous' (the task must not be split across breaks), with and without an allocation, also in a
        # project that starts inside working hours
        text = re.sub(r"(task \w+ \"[^\"]*\" \{\n)", r"\1  flags contiguous\n", text, count=rnd.randint(1, 3))
        if rnd.random() < 0.5:
            text = re.sub(r"(project \w+ \"P\" \d{4}-\d{2}-\d{2})", r"\1-10:00", text, count=1)
        if rnd.random() < 0.5:
            text = re.sub(r"\n\s*allocate [^\n]+", "", text, count=1)
        return m, text
    if k < 0.45 and k >= 0.35:
        # numbers with several hundred digits (float('inf')) where a duration or a count is expected
        big9 = rnd.choice(["9" * 310, "9" * 400, "1" + "0" * 305, "9" * 308])     # infinite as a float, or infinite after the unit conversion
        what = rnd.randrange(7)
        unit = rnd.choice(["h", "h", "w", "y"])
        if what == 5:
            text = re.sub(r'(timezone "Etc/UTC"\n)', r"\1  timingresolution %s\n" % rnd.choice(["3000000d", "99999999h", "5256000min"]), text, count=1)
        elif what == 6:
            text = re.sub(r'(project \w+ "P" )\S+ \+\S+', r"\g<1>9999-12-31-23:00 +59min", text, count=1)
        elif what == 0:
            text = re.sub(r"effort \d+(min|h|d)", "effort %s%s" % (big9, unit), text, count=1)
        elif what == 1:
            text = re.sub(r"(depends [^\n{]+?)(\n| \{[^\n]*\n)", r"\1 { gapduration %sh }\n" % big9, text, count=1)
        elif what == 2:
            text = re.sub(r"(resource r0 \"r0\" \{\n)", r"\1  limits { dailymax %sh }\n" % big9, text, count=1)
        elif what == 3:
            text = re.sub(r'(timezone "Etc/UTC"\n)', r"\1  timingresolution %smin\n" % big9, text, count=1)
        else:
            text = re.sub(r"(depends [^\n{]+?)(\n| \{[^\n]*\n)", r"\1 { gaplength %sh }\n" % big9, text, count=1)
        return m, text
    if k < 0.55 and k >= 0.45:
        # absences on the last day of the calendar, in an ordinary project
        line = rnd.choice(['vacation "x" 9999-12-31\n', 'leaves holiday "x" 9999-12-31\n'])
        if rnd.random() < 0.5:
            text = re.sub(r"(resource r0 \"r0\" \{\n)", r"\1  %s 9999-12-31\n" % rnd.choice(["vacation", "leaves annual"]), text, count=1)
        else:
            text = re.sub(r"(\}\n)", r"\1" + line, text, count=1)
        return m, text
    if k < 0.35:
        # a blocking booking of absurd length
        text = re.sub(r"(resource r0 \"r0\" \{\n)", r'\1  booking "B" %s +%s\n' % (m["start"].strftime("%Y-%m-%d"), rnd.choice(["9999999999d", "99999999h", "0min", "1d"])), text, count=1)
        return m, text
    # replace one effort with a boundary value
    efforts = list(re.finditer(r"effort \d+min", text))
    if efforts:
        e = rnd.choice(efforts)
        text = text[:e.start()] + "effort " + big + text[e.end():]
        if big.startswith("0.0000") and rnd.random() < 0.6:
            # ... with an alternative to fall back on, or pinned to an instant inside a slot of a day off
            mo = re.compile(r"\n(\s*)allocate (\w+)\n").search(text, e.start())
            if mo and rnd.random() < 0.6:
                text = text[:mo.start()] + "\n%sallocate %s { alternative %s }\n" % (mo.group(1), mo.group(2), rnd.choice([r["id"] for r in m["resources"]])) + text[mo.end():]
            elif mo and "start " not in text[e.start():mo.end() + 80]:
                pin = (m["start"] + timedelta(days=rnd.randrange(0, 7))).strftime("%Y-%m-%d") + rnd.choice(["-09:30", "-03:10", "-17:45"])
                text = text[:mo.end()] + "%sstart %s\n" % (mo.group(1), pin) + text[mo.end():]
    return m, text


def cls_unknown_and_empty(rnd):
    m = gen.gen(rnd, subslot=False, ntasks=(1, 5), res_choices=(60,), weeks=(1, 3))
    text = gen.render(m)
    k = rnd.random()
    if k < 0.3:
        text = re.sub(r"allocate r0\b", "allocate nobody", text, count=1)
    elif k < 0.5:
        text += 'task empty1 "e" {\n}\ntask empty2 "e2" {\n  task inner "i" {\n  }\n}\n'
    elif k < 0.65:
        text = re.sub(r"depends [^\n]+", "depends nosuchtask", text, count=1)
    elif k < 0.8:
        text = text.replace("+%dw" % m.get("weeks", 0), rnd.choice(["+0h", "+90min", "+0d", "+1h", "+0w"]), 1)
    else:
        text = text.replace('timezone "Etc/UTC"', 'timezone "Etc/UTC"\n  timingresolution %s' % rnd.choice(["0h", "0min", "61min", "7min", "120min", "1d"]), 1)
    return m, text


def cls_many_leaves(rnd):
    n = rnd.randint(1, 40)
    res = rnd.choice([60, 30, 15])
    L = ['project p "P" 2025-03-03 +%dw {' % rnd.choice([1, 2, 8]), '  timezone "Etc/UTC"']
    if res != 60:
        L.append("  timingresolution %dmin" % res)
    L.append("}")
    L.append('resource r "r" {}')
    for i in range(n):
        L.append('task t%d "t" { effort %dmin allocate r %s}' % (i, rnd.choice([5, 30, 60, 480, 2400]), ("depends t%d " % rnd.randrange(i)) if i and rnd.random() < 0.4 else ""))
    m = dict(res=res, ntasks=n, nres=1, weeks=8)
    return m, "\n".join(L) + "\n"


def cls_leaves_many(rnd):
    n = rnd.randint(5, 60)
    L = ['project p "P" 2025-03-03 +4w {', '  timezone "Etc/UTC"', "}", 'resource r "r" {']
    for i in range(n):
        L.append("  leaves annual 2025-03-%02d" % (3 + i % 25))
        if i % 3 == 0:
            L.append("  vacation 2025-03-%02d" % (3 + (i * 7) % 25))
    L.append("}")
    L.append('task a "a" { effort 30h allocate r }')
    return dict(res=60, ntasks=1, nres=1, weeks=4), "\n".join(L) + "\n"


def cls_scenarios_limits(rnd):
    nsc = rnd.randint(2, 5)
    L = ['project p "P" 2025-03-03 +4w {', '  timezone "Etc/UTC"', '  scenario plan "p" {']
    for i in range(nsc):
        L.append('    scenario s%d "s"' % i)
    L += ["  }", "}", 'resource g "g" {', "  limits { dailymax 4h }"]
    for i in range(rnd.randint(2, 5)):
        L.append('  resource r%d "r" {}' % i)
    L.append("}")
    for i in range(rnd.randint(2, 6)):
        L.append('task t%d "t" { effort %dh allocate r%d }' % (i, rnd.choice([4, 16, 40]), rnd.randrange(2)))
    return dict(res=60, ntasks=6, nres=6, weeks=4), "\n".join(L) + "\n"


def cls_gaplength(rnd):
    """working-time gaps (gaplength) and maxgapduration, incl. gaps that run past the horizon"""
    m = gen.gen(rnd, subslot=False, ntasks=(2, 6), res_choices=(60, 30), weeks=(1, 3), alap=rnd.random() < 0.2, onstart=False)
    text = gen.render(m)
    val = rnd.choice(["1h", "8h", "3d", "30d", "200d", "1w", "90min", "0h", "9999999d", "100000y", "99999999h"])
    kind = rnd.choice(["gaplength", "gaplength", "maxgapduration", "gapduration", "gapduration"])
    deps = list(re.finditer(r"depends ([^\n{]+?)(\n| \{)", text))
    if deps:
        d = rnd.choice(deps)
        ref = d.group(1).split(",")[0].strip()
        text = text[:d.start()] + "depends %s { %s %s }\n" % (ref, kind, val) + ("" if d.group(2) == "\n" else "  # ") + text[d.end():]
    return m, text


def cls_macros(rnd):
    """macro definitions: nested, with arguments, undefined, self-referential and mutually recursive ones"""
    m = gen.gen(rnd, subslot=False, ntasks=(1, 4), res_choices=(60,), weeks=(1, 3))
    text = gen.render(m)
    k = rnd.randrange(8)
    defs = {
        0: "macro m [ ${m} ]\n", 1: "macro m [ ${m} ${m} ]\n", 2: "macro a [ ${b} ]\nmacro b [ ${a} ${a} ]\n",
        3: "macro e [ effort $1 ]\n", 4: "macro outer [ ${inner} ]\nmacro inner [ priority 700 ]\n", 5: "macro grow [ ${grow $1 $1} ]\n",
        6: "macro unused [ ]\n", 7: "macro q [ \"a ] b\" ]\n"}[k]
    use = {0: "${m}", 1: "${m}", 2: "${a}", 3: "${e 3h}", 4: "${outer}", 5: "${grow x}", 6: "${undefined_macro}", 7: "${q}"}[k]
    # put the use inside the first task body (after its opening brace) or as a stray line
    i = text.find("task ")
    j = text.find("{", i)
    if i >= 0 and j >= 0 and rnd.random() < 0.8:
        text = defs + text[:j + 1] + "\n  " + use + text[j + 1:]
    else:
        text = defs + text + use + "\n"
    return m, text


def cls_out_of_window(rnd):
    """leaves / vacations / bookings reaching outside the project window; pins and deadlines that contradict each other
    or lie outside the horizon; both start and end given"""
    m = gen.gen(rnd, subslot=False, ntasks=(2, 6), res_choices=(60, 30), weeks=(1, 3), alap=rnd.random() < 0.3, leaves=False)
    st = m["start"]
    span = timedelta(weeks=m.get("weeks", 2))
    for r in m["resources"]:
        k = rnd.random()
        if k < 0.3:
            r["leaves"] = [(st - timedelta(days=rnd.choice([1, 30, 400])), st + timedelta(days=rnd.choice([1, 3])))]
        elif k < 0.5:
            r["leaves"] = [(st + span - timedelta(days=2), st + span + timedelta(days=rnd.choice([1, 30, 4000])))]
        elif k < 0.6:
            r["leaves"] = [(st - timedelta(days=700), st - timedelta(days=690))]
        elif k < 0.7:
            r["vacs"] = [(st - timedelta(days=365), st + timedelta(days=366))]
    if rnd.random() < 0.4:
        m["vacations"] = [(st - timedelta(days=rnd.choice([1, 10])), st + timedelta(days=1)), (st + span, None)]
    for t in m["tasks"]:
        if t["container"]:
            continue
        k = rnd.random()
        if k < 0.15:
            t["start"] = st + timedelta(days=5)
            t["end"] = st + timedelta(days=2)               # end before start
        elif k < 0.3:
            t["start"] = st + timedelta(days=1)
            t["end"] = st + timedelta(days=rnd.choice([2, 9]))
        elif k < 0.4 and "effort_min" not in t:
            t["start"] = st + timedelta(days=rnd.choice([-3, 60, 700]))   # milestone pinned outside the window
        elif k < 0.5 and "effort_min" not in t:
            t["end"] = st + timedelta(days=rnd.choice([-3, 60, 700]))
        elif k < 0.6 and "effort_min" not in t:
            # pins less than a slot / a few slots outside the window
            if rnd.random() < 0.5:
                t["start"] = st - timedelta(minutes=rnd.choice([1, 15, 30, 59, 90]))
            else:
                t["end"] = st + span + timedelta(minutes=rnd.choice([1, 30, 59, 61, 90]))
                m["alap"] = True
    text = gen.render(m)
    if rnd.random() < 0.06:
        # a project at the edge of the calendar (found by the thorough tier's corrupted digits: 9999-12-31 +3w)
        return m, re.sub(r'(project \w+ "P" )\d{4}-\d{2}-\d{2}', r"\g<1>" + rnd.choice(["9999-12-31", "9999-12-20", "0001-01-01"]), text, count=1)
    if rnd.random() < 0.25:
        # work and milestones right at the project end: a round-the-clock resource, a task that reaches the end, a milestone a
        # gap behind it; resolutions that do not divide the project period (the last slot straddles the end)
        end_ = st + timedelta(days=m["days"]) if "days" in m else st + timedelta(weeks=m["weeks"])
        if rnd.random() < 0.5:
            text = re.sub(r'(timezone "Etc/UTC"\n)(  timingresolution \d+min\n)?', r"\1  timingresolution %dmin\n" % rnd.choice([7, 11, 13, 45, 50]), text, count=1)
        text += ('resource r24 "r24" {\n  workinghours mon - sun 0:00 - 24:00\n}\n'
                 'task za "za" {\n  start %s\n  effort %dmin\n  allocate r24\n}\n'
                 'task zm "zm" {\n  depends za { gapduration %dmin }\n}\n'
                 % (gen.d_full(end_ - timedelta(minutes=rnd.choice([240, 235, 60, 12]))), rnd.choice([240, 236, 12, 60]), rnd.choice([1, 30, 59, 120])))
        return m, text
    if rnd.random() < 0.4:
        # a milestone pinned a little outside the window (less than a slot, one or two slots)
        off = rnd.choice([1, 15, 30, 59, 61, 90, 150])
        if rnd.random() < 0.5:
            text += 'task zpin "zpin" {\n  milestone\n  start %s\n}\n' % gen.d_full(st - timedelta(minutes=off))
        else:
            end_ = st + timedelta(days=m["days"]) if "days" in m else st + timedelta(weeks=m["weeks"])
            text += 'task zpin "zpin" {\n  milestone\n  %s %s\n}\n' % (rnd.choice(["start", "scheduling alap\n  end"]), gen.d_full(end_ + timedelta(minutes=off)))
    return m, text


def cls_deep(rnd):
    """deeply nested task trees and long dependency chains (recursion in the transformer, the builder, the roll-up)"""
    n = rnd.choice([30, 120, 300, 700, 145, 160, 175, 190, 220])     # around the depth where the interpreter's recursion limit is reached
    L = ['project p "P" 2025-03-03 +4w {', '  timezone "Etc/UTC"', "}", 'resource r "r" {}']
    k = rnd.random()
    if k < 0.2:
        # resource groups nested 8..20 deep (finishScheduling recursed twice per level: exponential)
        depth = rnd.choice([8, 12, 16, 18, 20])
        for i in range(depth):
            L.append('%sresource g%d "g%d" {' % (" " * i, i, i))
        L.append('resource leaf "leaf" {}')
        L.extend("}" for _ in range(depth))
        L.append('task a "a" { effort 4h allocate leaf }')
        return dict(res=60, giant=False), "\n".join(L) + "\n"
    if k < 0.4:
        # a long acyclic chain that ends in an ALAP anchor with a fixed end (backward propagation along the chain)
        n = rnd.choice([40, 100, 200, 1200])
        for i in range(n):
            L.append('task c%d "c%d" { effort 1h allocate r %s}' % (i, i, ("depends c%d " % (i - 1)) if i else ""))
        L.append('task z "z" { effort 1h allocate r scheduling alap end 2025-03-28 depends c%d }' % (n - 1))
        return dict(res=60, giant=False), "\n".join(L) + "\n"
    if rnd.random() < 0.6:
        for i in range(n):
            L.append("%stask n%d \"n%d\" {" % (" " * (i % 40), i, i))
        L.append("effort 2h allocate r")
        L.extend("}" for _ in range(n))
    else:
        for i in range(n):
            L.append('task c%d "c%d" { effort 1h allocate r %s}' % (i, i, ("depends c%d " % (i - 1)) if i else ""))
    return dict(res=60, giant=False), "\n".join(L) + "\n"


def cls_multi_allocate(rnd):
    """several allocate statements in one task body, with and without alternatives; the same resource named twice"""
    m = gen.gen(rnd, subslot=False, ntasks=(2, 5), res_choices=(60, 30), weeks=(1, 3), nres=(3, 4), alts=True)
    text = gen.render(m)
    ids = [r["id"] for r in m["resources"]]
    def more(mo):
        k = rnd.random()
        a, b = rnd.sample(ids, 2)
        if k < 0.4:
            extra = "allocate %s { alternative %s }\n  allocate %s" % (a, b, rnd.choice(ids))
        elif k < 0.7:
            extra = "allocate %s, %s\n  allocate %s { alternative %s }" % (a, a, b, a)
        else:
            extra = "allocate %s\n  allocate %s" % (a, b)
        return mo.group(1) + extra
    text = re.sub(r"(\n\s*)allocate [^\n]+", more, text, count=rnd.randint(1, 3))
    return m, text


def cls_grammar(rnd):
    """random derivations of the repo's own grammar (vlib.gramfuzz): whole files, and single statements of every
    kind embedded in a small valid project"""
    from .. import gramfuzz
    G = gramfuzz.load()
    if rnd.random() < 0.3:
        return dict(res=60, grammar=True), gramfuzz.generate(rnd)
    nts = [n for n in ("task", "task", "task", "resource", "resource", "shift", "taskreport", "global_attribute", "account", "resourcereport", "textreport")
           if n in G["rules"]]
    return dict(res=60, grammar=True), gramfuzz.embed(rnd, rnd.choice(nts))


BOUNDARY = ["0", "-1", "99999999999", "2025-02-30", "2025-13-01", "0000-00-00", "9999-12-31", "1970-01-01", "+0d", "+100000y", "25:00", "00:60", '""', "{", "}", "${x}",
            "!!!!", "1e309", "0.0000001h", "effort", "task", "\\", "\x00", "é", "2025-03-03-24:00", "1min", "60min"]


def corrupt(rnd, text):
    toks = re.findall(r'"[^"\n]*"|\S+|\s+', text)
    idx = [i for i, t in enumerate(toks) if not t.isspace()]
    if not idx:
        return text
    for _ in range(rnd.randint(1, 3)):
        k = rnd.random()
        i = rnd.choice(idx)
        if k < 0.2:
            toks[i] = ""
        elif k < 0.35:
            toks[i] = toks[i] + " " + toks[i]
        elif k < 0.5:
            j = rnd.choice(idx)
            toks[i], toks[j] = toks[j], toks[i]
        elif k < 0.6:
            toks = toks[:i]
            idx = [x for x in idx if x < i]
            if not idx:
                break
        else:
            toks[i] = rnd.choice(BOUNDARY)
    return "".join(toks)


def cls_corrupted(rnd):
    base = rnd.choice([cls_valid, cls_many_leaves, cls_scenarios_limits, cls_fixture, cls_gaplength, cls_out_of_window])
    m, text = base(rnd)
    return m, corrupt(rnd, text)


_FIX = []


def cls_fixture(rnd):
    import glob
    import os
    if not _FIX:
        for f in sorted(glob.glob(os.path.join(common.REPO, "tests", "data", "*.tjp"))) + sorted(glob.glob(os.path.join(common.REPO, "examples", "*.tjp"))):
            try:
                t = open(f).read()
            except OSError:
                continue
            if len(t) < 6000 and "${now}" not in t and "${today}" not in t:
                _FIX.append(t)
    if not _FIX:
        return cls_valid(rnd)
    return dict(res=60, fixture=True), rnd.choice(_FIX)


CLASSES = [("deep-nesting-long-chains", cls_deep, 1), ("multi-allocate", cls_multi_allocate, 1), ("valid", cls_valid, 3), ("cycle", cls_cycle, 2), ("bounds-past-end", cls_bounds_past_end, 2), ("never-works", cls_never_works, 2), ("efforts", cls_efforts, 2),
           ("unknown-empty-duration-resolution", cls_unknown_and_empty, 2), ("many-leaves", cls_many_leaves, 1), ("many-leave-lines", cls_leaves_many, 1),
           ("scenarios-group-limits", cls_scenarios_limits, 1), ("corrupted", cls_corrupted, 6), ("fixture", cls_fixture, 1),
           ("gaplength-maxgap", cls_gaplength, 2), ("macros", cls_macros, 2), ("out-of-window", cls_out_of_window, 3),
           ("grammar-derivation", cls_grammar, 6)]


def unwrap(e):
    """lark wraps exceptions raised inside transformer callbacks"""
    seen = 0
    while hasattr(e, "orig_exc") and e.orig_exc is not None and seen < 5:
        e = e.orig_exc
        seen += 1
    return e


def innermost(e):
    import traceback
    tb = traceback.extract_tb(e.__traceback__)
    for fr in reversed(tb):
        if "scriptplan" in fr.filename:
            return "%s:%s" % (fr.filename.split("scriptplan/")[-1], fr.name)
    return tb[-1].name if tb else "?"


LIVE = [None]


def _watch_schedule():
    """remember the project object that entered Project.schedule (to size an aborted run)"""
    from scriptplan.core.project import Project
    if getattr(Project.schedule, "_c11_watch", False):
        return
    orig = Project.schedule

    def schedule(self, *a, **k):
        LIVE[0] = self
        return orig(self, *a, **k)
    schedule._c11_watch = True
    Project.schedule = schedule


def run_one(name, m, text, acc, cs, job):
    import lark
    monitors.reset()
    size_hint = len(text)
    # logical step bound: generous multiple of what a project of this size needs (calibrated: see DESIGN C11)
    nlines = text.count("\n") + 1
    # absolute cap while running (aborts true hangs on logical steps); the size-relative bound is checked afterwards
    bound = int(job["params"].get("step_cap", 40_000_000))
    if isinstance(m, dict) and m.get("giant"):
        bound *= 15    # horizons of decades are legitimate and cost steps in proportion (judged by the size-relative bound afterwards)
    err = io.StringIO()
    outcome = None
    p = None
    exc = None
    LIVE[0] = None
    _watch_schedule()
    steps_on(bound)
    try:
        with contextlib.redirect_stderr(err), contextlib.redirect_stdout(io.StringIO()), warnings.catch_warnings():
            warnings.simplefilter("ignore")
            p = sched.parser().parse(text)
        outcome = "returned"
    except StepBound:
        outcome = "step-bound"
    except CaseTimeout:
        steps_off()
        raise
    except BaseException as e:     # SystemExit and KeyboardInterrupt included: they are outcomes to classify
        exc = unwrap(e)
        if isinstance(exc, CaseTimeout):
            steps_off()
            raise exc              # the watchdog fired inside a transformer callback (lark wrapped it): inconclusive
        if isinstance(exc, StepBound):
            outcome = "step-bound"  # the step cap was hit inside a transformer callback
        elif isinstance(exc, (lark.exceptions.LarkError, ValueError)) and not isinstance(exc, (UnicodeError,)):
            outcome = "rejected"
        else:
            outcome = "internal-error"
    finally:
        steps = steps_off()
    acc.count("steps", steps)
    acc.count("outcome:" + outcome)
    rp = dict(property="C11", seed=cs, cls=name, text=text, model=None)
    if outcome == "step-bound" and LIVE[0] is not None:
        # the absolute cap is only the harness's way to stop a run on logical steps; the property's bound is relative to
        # project size.  A derivation such as 'effort 1000 y' makes the repo extend the horizon to centuries: judge
        # the aborted run by the same size unit as a finished one, measured on the live project object.
        try:
            lp = LIVE[0]
            lsize = lp.scoreboardSize()
            lunit = max(1, lsize) * (sum(1 for _ in lp.resources) + sum(1 for t in lp.tasks if t.leaf()) + 1) * max(1, lp.scenarioCount())
        except Exception:
            lunit = 0
        if lunit and (steps - 3000 * len(text)) / lunit <= job["params"].get("step_ratio", 60.0):
            acc.count("outcome:aborted-giant-within-size-bound")
            acc.counters["max-slots-of-aborted-giant"] = max(acc.counters.get("max-slots-of-aborted-giant", 0), lsize)
            return "aborted-giant", None
    if outcome == "step-bound":
        acc.violation("C11", "step-bound-exceeded", dict(cls=name, bound=bound, lines=nlines), [], dict(rp, clause="step-bound-exceeded"))
        return outcome, None
    if outcome == "internal-error":
        site = innermost(exc)
        acc.violation("C11", "internal-error:" + type(exc).__name__, dict(cls=name, exc=repr(exc)[:200], site=site), [], dict(rp, clause="internal-error:" + type(exc).__name__))
        acc.sig(("C11", name, outcome, type(exc).__name__, site))
        return outcome, None
    if outcome == "rejected":
        acc.sig(("C11", name, outcome, type(exc).__name__))
        return outcome, None
    # ---- project returned: totality conditions
    events = list(monitors.EV)
    warned = any(e["k"] == "warning" for e in events) or "arning" in err.getvalue()
    ps, pe = p["start"], p["end"]
    size = p.scoreboardSize() if hasattr(p, "scoreboardSize") else 0
    leaves = [t for t in p.tasks if t.leaf()]
    nun = 0
    for sc in range(p.scenarioCount()):
        for t in leaves:
            sch = t.get("scheduled", sc)
            st, en = t.get("start", sc), t.get("end", sc)
            if sch:
                if st is None or en is None:
                    acc.violation("C11", "scheduled-without-dates", dict(task=t.fullId, sc=sc), [], dict(rp, clause="scheduled-without-dates"))
                elif st > en:
                    acc.violation("C11", "scheduled-start-after-end", dict(task=t.fullId, start=st, end=en), [], dict(rp, clause="scheduled-start-after-end"))
                elif ps is not None and pe is not None and (st < ps or en > pe):
                    pinned = t.provided("start", sc) or t.provided("end", sc)
                    if pinned and not t.get("effort", sc) and (st < ps or en > pe):
                        # a pinned zero-length task has no work that could run over: its date must lie inside [start, end]
                        acc.violation("C11", "pinned-milestone-scheduled-outside-horizon", dict(task=t.fullId, start=st, end=en, pstart=ps, pend=pe), [],
                                      dict(rp, clause="pinned-milestone-scheduled-outside-horizon"))
                    if not pinned:
                        acc.violation("C11", "scheduled-outside-horizon", dict(task=t.fullId, start=st, end=en, pstart=ps, pend=pe), [], dict(rp, clause="scheduled-outside-horizon"))
            else:
                nun += 1
    if nun and not warned:
        acc.violation("C11", "unscheduled-without-warning", dict(n=nun, stderr=err.getvalue()[-200:]), [], dict(rp, clause="unscheduled-without-warning"))
    picks = sum(1 for e in events if e["k"] == "pick")
    if picks > len(leaves) * max(1, p.scenarioCount()):
        acc.violation("C11", "more-picks-than-leaves", dict(picks=picks, leaves=len(leaves)), [], dict(rp, clause="more-picks-than-leaves"))
    worst = max([e.get("steps", 0) for e in events if e["k"] == "task-done"] or [0])
    if size and worst > size + 2:
        acc.violation("C11", "cursor-moves-exceed-slots", dict(moves=worst, slots=size), [], dict(rp, clause="cursor-moves-exceed-slots"))
    # size-relative progress bound: steps per (slot x (resources + leaves + 1) x scenarios)
    nres = sum(1 for _ in p.resources)
    unit = max(1, size) * (nres + len(leaves) + 1) * max(1, p.scenarioCount())
    ratio = (steps - job["params"].get("step_base", 2_000_000) - 3000 * len(text)) / unit
    acc.counters["max-steps-per-size-unit-x1000"] = max(acc.counters.get("max-steps-per-size-unit-x1000", 0), int(ratio * 1000))
    if ratio > job["params"].get("step_ratio", 60.0):
        acc.violation("C11", "steps-not-proportional-to-size", dict(steps=steps, slots=size, resources=nres, leaves=len(leaves), ratio=ratio), [],
                      dict(rp, clause="steps-not-proportional-to-size"))
    acc.count("ev:pick", picks)
    acc.count("leaves", len(leaves))
    acc.count("unscheduled-leaves", nun)
    acc.sig(("C11", name, outcome, nun > 0, warned, min(len(leaves), 12), p.scenarioCount()))
    return outcome, steps / max(1, nlines)


def worker(job, acc):
    GIANT_P[0] = 0.02 if job["tier"] == "quick" else 0.08
    tot = sum(w for _, _, w in CLASSES)
    t0 = time.time()
    ratios = []
    for ci in range(job["ncases"]):
        if time.time() - t0 > job.get("budget_s", 600):
            acc.count("truncated-by-budget", job["ncases"] - ci)
            break
        cs = case_seed(job["seed"], job["widx"], ci)
        rnd = random.Random(cs)
        x = rnd.random() * tot
        for name, f, wgt in CLASSES:
            x -= wgt
            if x <= 0:
                break
        signal.alarm(job.get("case_timeout", 40))
        try:
            m, text = f(rnd)
            acc.count("class:" + name)
            out, ratio = run_one(name, m, text, acc, cs, job)
            if ratio:
                ratios.append(ratio)
            acc.count("cases")
            acc.count("nontrivial")
            if name in ("corrupted", "cycle") and len(acc.samples) < 2:
                acc.sample(dict(cls=name, seed=cs, text=text[:1200], outcome=out), limit=2)
        except CaseTimeout:
            acc.count("case-timeout")
            acc.notes.append("watchdog fired (inconclusive) seed=%d class=%s" % (cs, name))
        except Exception:
            import traceback
            acc.count("harness-exception")
            acc.notes.append("harness-exception seed=%d: %s" % (cs, traceback.format_exc()[-800:]))
        finally:
            signal.alarm(0)
            steps_off()
    for k, v in monitors.counts().items():
        acc.count("monitor:" + k, v)


def replay(prop, rp, acc):
    setup({}, acc)
    out, _ = run_one(rp.get("cls", "replay"), None, rp["text"], acc, rp.get("seed"), dict(params={}))
    print("outcome:", out)
