"""C13 (compiled fast paths == pure-Python fallbacks) and C17 (slot/time algebra, interval scanning).

Both run the REAL functions.  Extensions are rebuilt from the working tree's .pyx (vlib.cybuild) and loaded in 'fresh'
workers; inside such a worker the module-level _USE_CYTHON switch selects the implementation per call (the engine
is single-threaded, so toggling a module global around one call is safe).
 * grid driver: exhaustive over the stated grids, both implementations;
 * M-shadow: every accelerated call made by real scheduling workloads is executed with both implementations;
 * whole-project fingerprints under pure / fresh / in-tree extensions (cross-worker comparison in the driver);
 * M-san: the same grid + projects with an ASan+UBSan build of the extensions, reports counted from the log files.
"""
import collections
import glob
import itertools
import contextlib
import io
import math
import os
import random
import shutil
import signal
import subprocess
import sys
import time
from datetime import datetime, timedelta

from .. import common, cybuild, gen, monitors, pool
from ..worker import CaseTimeout, case_seed

MODS = {}


def mods():
    if not MODS:
        from scriptplan.scheduler import scoreboard as sbm
        from scriptplan.core import working_hours as whm, project as pm
        from scriptplan.utils.time import TimeInterval
        MODS.update(sb=sbm, wh=whm, pm=pm, TI=TimeInterval)
    return MODS


def impls():
    m = mods()
    return ["py", "cy"] if (m["sb"]._USE_CYTHON and m["wh"]._USE_CYTHON and m["pm"]._USE_CYTHON) else ["py"]


class use:
    """context manager selecting the implementation in all three modules"""

    def __init__(self, impl):
        self.flag = impl == "cy"

    def __enter__(self):
        m = mods()
        self.old = (m["sb"]._USE_CYTHON, m["wh"]._USE_CYTHON, m["pm"]._USE_CYTHON)
        m["sb"]._USE_CYTHON = m["wh"]._USE_CYTHON = m["pm"]._USE_CYTHON = self.flag

    def __exit__(self, *a):
        m = mods()
        m["sb"]._USE_CYTHON, m["wh"]._USE_CYTHON, m["pm"]._USE_CYTHON = self.old


def call(impl, f, *a):
    with use(impl):
        try:
            return ("ok", f(*a))
        except Exception as e:
            return ("exc", type(e).__name__)


class FakeProject:
    """just enough of a Project for Project.dateToIdx / idxToDate (they read self.attributes only)"""

    def __init__(self, start, gran):
        self.attributes = {"start": start, "scheduleGranularity": gran}


# =============================================================================================== C17 algebra

def ref_intervals(bits, n, s_idx, e_idx, min_slots, index0_mechanism=False):
    """brute-force reference: maximal runs of length >= min_slots over the table, clipped to [s_idx, e_idx).
    The last table index (n-1) is the table's end sentinel and never part of the query window."""
    out = []
    i = 0
    bits = list(bits[:n - 1]) + [0]      # the last table index only marks the end of the window: never part of a run
    while i < n:
        if bits[i]:
            j = i
            while j < n and bits[j]:
                j += 1
            if j - i >= min_slots:
                i2 = 1 if (index0_mechanism and i == 0 and j - i >= 2) else i
                a, b = max(i2, s_idx), min(j, e_idx)
                if a < b:
                    out.append((a, b))
            i = j
        else:
            i += 1
    return out


def algebra_window(acc, impl, res, start, end, prop):
    """conversion laws for one (resolution, window); returns number of law evaluations"""
    m = mods()
    n_eval = 0
    sb = None
    with use(impl):
        sb = m["sb"].Scoreboard(start, end, res)
    want_size = math.ceil((end - start).total_seconds() / res) + 1
    if sb.size != want_size:
        acc.violation(prop, "size", dict(impl=impl, res=res, start=start, end=end, size=sb.size, want=want_size), [], None)
    size = sb.size
    fp = FakeProject(start, res)
    P = m["pm"].Project
    prev = None
    for i in range(size):
        k, d = call(impl, sb.idxToDate, i)
        n_eval += 1
        if k != "ok":
            acc.violation(prop, "idxToDate-rejects-valid-index", dict(impl=impl, res=res, i=i, exc=d), [], None)
            continue
        if prev is not None and not (d > prev):
            acc.violation(prop, "idxToDate-not-strictly-increasing", dict(impl=impl, res=res, i=i, prev=prev, cur=d), [], None)
        prev = d
        if d != start + timedelta(seconds=i * res):
            acc.violation(prop, "idxToDate-value", dict(impl=impl, res=res, i=i, got=d), [], None)
        k2, j = call(impl, sb.dateToIdx, d, False)
        if (k2, j) != ("ok", i):
            acc.violation(prop, "index(time(i))!=i", dict(impl=impl, res=res, i=i, got=(k2, j)), [], None)
        # Project-level twins
        k3, d3 = call(impl, P.idxToDate, fp, i)
        k4, j4 = call(impl, P.dateToIdx, fp, d)
        if (k3, d3) != ("ok", d) or (k4, j4) != ("ok", i):
            acc.violation(prop, "project-conversion-roundtrip", dict(impl=impl, res=res, i=i, idxToDate=(k3, d3), dateToIdx=(k4, j4)), [], None)
        # floor-inverse on instants inside the slot, incl. sub-second instants right before the next boundary
        # (seeded change C17-b rounded the elapsed time to whole seconds)
        for off in (1, res // 2, res - 1, 0.4, res - 0.5, res - 0.1, res - 0.000001):
            if off <= 0 or off >= res:
                continue
            if isinstance(off, float) and i % 7 and i not in (0, size - 2):
                continue      # fractional probes on every 7th slot and at both ends
            t = d + timedelta(seconds=off)
            if t > end:
                continue
            k5, j5 = call(impl, sb.dateToIdx, t, False)
            n_eval += 1
            if (k5, j5) != ("ok", i):
                acc.violation(prop, "floor-inverse", dict(impl=impl, res=res, t=t, want=i, got=(k5, j5)), [], None)
            k6, j6 = call(impl, P.dateToIdx, fp, t)
            if (k6, j6) != ("ok", i):
                acc.violation(prop, "project-floor-inverse", dict(impl=impl, res=res, t=t, want=i, got=(k6, j6)), [], None)
    # out-of-range indices
    for i in (-1, -2, size, size + 1, size + 7):
        k, d = call(impl, sb.idxToDate, i, False)
        n_eval += 1
        if not (k == "exc" and d == "IndexError"):
            acc.violation(prop, "out-of-range-index-not-rejected", dict(impl=impl, res=res, i=i, size=size, got=(k, d)), [], None)
        k, d = call(impl, sb.idxToDate, i, True)
        want = start if i < 0 else end
        if (k, d) != ("ok", want):
            acc.violation(prop, "clamped-index-wrong", dict(impl=impl, res=res, i=i, got=(k, d), want=want), [], None)
    # out-of-range instants
    last = start + timedelta(seconds=(size - 1) * res)
    for t, where in ((start - timedelta(seconds=1), "before"), (start - timedelta(seconds=0.3), "before"), (start - timedelta(microseconds=1), "before"),
                     (start - timedelta(seconds=res - 1), "before"), (start - timedelta(seconds=3 * res), "before"),
                     (last + timedelta(seconds=res), "after"), (last + timedelta(seconds=5 * res + 1), "after")):
        k, d = call(impl, sb.dateToIdx, t, False)
        n_eval += 1
        if not (k == "exc" and d == "IndexError"):
            ms = ["date-just-before-start-truncates-to-0"] if (where == "before" and (start - t).total_seconds() < res and (k, d) == ("ok", 0)) else []
            acc.violation(prop, "out-of-range-instant-not-rejected", dict(impl=impl, res=res, t=t, start=start, where=where, got=(k, d)), ms, None)
        k, d = call(impl, sb.dateToIdx, t, True)
        want = 0 if where == "before" else size - 1
        if (k, d) != ("ok", want):
            acc.violation(prop, "clamped-instant-wrong", dict(impl=impl, res=res, t=t, got=(k, d), want=want), [], None)
    return n_eval, size


def algebra_collect(acc, impl, n, prop, min_choices=(0, 1, 2, 3), res=3600):
    """collectIntervals on every predicate pattern of length n x every query window x minimum lengths"""
    m = mods()
    start = datetime(2025, 1, 1)
    end = start + timedelta(seconds=res * (n - 1))
    n_eval = 0
    with use(impl):
        sb = m["sb"].Scoreboard(start, end, res)
    if sb.size != n:
        acc.violation(prop, "size", dict(impl=impl, res=res, start=start, end=end, size=sb.size, want=n), [], None)
        return 0
    TI = m["TI"]
    pred = lambda v: v == 1
    for bits_i in range(1 << n):
        bits = [(bits_i >> i) & 1 for i in range(n)]
        for i in range(n):
            sb[i] = bits[i]
        for qa in range(0, n):
            for qb in range(qa + 1, n):
                iv = TI(start + timedelta(seconds=res * qa), start + timedelta(seconds=res * qb))
                for mins_f in min_choices:
                    # minimum durations that are NOT multiples of the resolution too (seeded change C17-a): the minimum run
                    # length is floor(minDuration / resolution) slots, at least 1
                    min_seconds = int(mins_f * res)
                    mins = int(min_seconds // res)
                    k, got = call(impl, lambda: [(int((x.start - start).total_seconds()) // res, int((x.end - start).total_seconds()) // res)
                                                 for x in sb.collectIntervals(iv, min_seconds, pred)])
                    n_eval += 1
                    want = ref_intervals(bits, n, qa, qb, max(1, mins))
                    if k != "ok" or got != want:
                        ms = []
                        if k == "ok":
                            proper = [iv2 for iv2 in got if iv2[0] < iv2[1]]
                            if len(proper) != len(got):
                                ms.append("collect-empty-interval-for-run-outside-window")
                            if proper != want:
                                if bits[0] and collect_index0_explains(bits, n, qa, qb, max(1, mins), proper):
                                    ms.append("collect-run-at-index-0")
                                else:
                                    ms = []     # not explained by the listed mechanisms alone
                        acc.violation(prop, "collectIntervals-differs-from-reference",
                                      dict(impl=impl, pattern="".join(map(str, bits)), window=(qa, qb), min_seconds=min_seconds, resolution=res, min_slots=mins, got=got, want=want), ms, None)
    return n_eval


def collect_index0_explains(bits, n, qa, qb, mins, got):
    """known mechanism: index 0 doubles as the 'no run yet' sentinel, so a run that begins at table index 0 and is at
    least two slots long is reported as beginning at index 1 (its length is still counted from index 0)."""
    return got == ref_intervals(bits, n, qa, qb, mins, index0_mechanism=True)


def c17_worker(job, acc):
    tier = job["tier"]
    w, W = job["widx"], job["nworkers"]
    t0 = time.time()
    budget = job.get("budget_s", 600)
    av = impls()
    for im in av:
        acc.count("impl:" + im)
    resolutions = list(range(60, 3601, 60))           # 1..60 min
    # every whole-minute resolution in both tiers (seeded change C17-c broke exactly 49 and 51 min: multiplication by
    # the rounded reciprocal instead of a division); quick saves on offsets and spans instead
    offsets = [timedelta(0), timedelta(minutes=17), timedelta(minutes=59, seconds=30), timedelta(hours=13, minutes=1)]
    spans = [timedelta(hours=5), timedelta(days=1), timedelta(days=2, hours=7, minutes=13), timedelta(days=3)]
    if tier == "quick":
        spans = [timedelta(hours=5), timedelta(days=1, hours=7, minutes=13)]
        offsets = offsets[:1] + offsets[2:3]
    base = datetime(2025, 3, 29)   # a DST weekend in Europe: conversions are on the naive project clock and must not care
    combos = [(r, o, s) for r in resolutions for o in offsets for s in spans]
    n_done = 0
    for ci, (r, o, s) in enumerate(combos):
        if ci % W != w:
            continue
        if time.time() - t0 > budget * 0.6:
            acc.count("truncated-by-budget")
            break
        for im in av:
            ne, size = algebra_window(acc, im, r, base + o, base + o + s, "C17")
            acc.count("law-evaluations", ne)
            acc.count("cases")
            acc.sig(("C17", "window", r, str(o), str(s), im))
            acc.count("nontrivial")
        n_done += 1
    # interval scanning: all patterns up to length N
    maxn = 12 if tier == "thorough" else 9
    sizes = list(range(2, maxn + 1))
    tasks = [(n, im) for n in sizes for im in av]
    for ti, (n, im) in enumerate(tasks):
        if ti % W != w:
            continue
        if time.time() - t0 > budget:
            acc.count("truncated-by-budget")
            break
        ne = algebra_collect(acc, im, n, "C17", min_choices=(0, 0.5, 1, 1.5, 1.75, 2, 2.5, 3) if n <= 8 else ((0, 1, 1.5, 2, 2.75, 3) if n <= 10 else (1, 2.5)))
        acc.count("law-evaluations", ne)
        acc.count("collect-evaluations", ne)
        acc.count("cases")
        acc.sig(("C17", "collect", n, im))
        acc.count("nontrivial")
    # the tables of REAL projects (parser + builder + scheduler): the project's own size formula, the project table and
    # every resource table agree, cover [start, end] and convert consistently - also when the window is no multiple of
    # the resolution (seeded change C17-d: Project.scoreboardSize() took the floor)
    import math as _math
    from scriptplan.parser.tjp_parser import ProjectFileParser
    lens = ["+1w", "+10d", "+3d", "+10110min", "+100h"]
    for ri, rmin in enumerate(range(1, 61)):
        if ri % W != w:
            continue
        for ln in (lens if tier == "thorough" else lens[ri % 2::2] + lens[:1]):
            for im in av:
                text = ('project p "P" 2025-03-03-0%d:00 %s {\n  timezone "Etc/UTC"\n  timingresolution %dmin\n}\nresource r "r" {}\n'
                        'task a "a" {\n  effort 2h\n  allocate r\n}\n' % (ri % 3, ln, rmin))
                try:
                    with use(im), contextlib.redirect_stderr(io.StringIO()), contextlib.redirect_stdout(io.StringIO()):
                        pr = ProjectFileParser().parse(text)
                except Exception as e:
                    acc.count("real-project-rejected:" + type(e).__name__)
                    continue
                acc.count("real-project-tables")
                acc.count("cases")
                acc.count("nontrivial")
                acc.sig(("C17", "real", rmin, ln, im))
                st, en, res_s = pr["start"], pr["end"], rmin * 60
                want = _math.ceil((en - st).total_seconds() / res_s) + 1
                with use(im):
                    got = dict(project=pr.scoreboardSize(), table=pr.scoreboard.size if pr.scoreboard else None,
                               resources=sorted({r.data[0].scoreboard.size for r in pr.resources if r.data and r.data[0].scoreboard is not None}))
                    last = pr.idxToDate(pr.scoreboardSize() - 1)
                    back = pr.dateToIdx(pr.idxToDate(want - 2))
                if got["project"] != want or got["table"] != want or got["resources"] != [want]:
                    acc.violation("C17", "real-project-table-size", dict(impl=im, res_min=rmin, length=ln, start=st, end=en, want=want, got=got), [], None)
                elif last < en or back != want - 2:
                    acc.violation("C17", "real-project-table-does-not-cover-window", dict(impl=im, res_min=rmin, length=ln, end=en, last_slot=last, roundtrip=back), [], None)
    acc.sample(dict(kind="window law", example=dict(resolution_s=420, window="2025-03-29 00:17 .. +1d7h13m", laws=["size=ceil(len/res)+1", "idx->time strictly increasing",
               "index(time(i))=i", "floor-inverse at +1s, +res/2, +res-1", "out-of-range index/instant rejected unless clamped"])), limit=1)
    acc.sample(dict(kind="collectIntervals", example=dict(pattern="0110111", window=[1, 6], min_slots=2, reference=ref_intervals([0, 1, 1, 0, 1, 1, 1], 7, 1, 6, 2))), limit=2)


# =============================================================================================== C13 grid + shadow

WH_SETS = [[("08:00", "12:00")], [("08:13", "11:59"), ("13:07", "17:47")], [("22:00", "06:00")], [("00:00", "00:00")], [("12:00", "12:00")],
           [("23:59", "00:01")], [("00:00", "23:59")], [("09:00", "12:00"), ("12:00", "15:00")], [("06:00", "02:00"), ("03:00", "04:00")],
           # interval lists that are NOT in chronological order (source order is kept by the parser): seeded change C13-a
           [("13:00", "17:00"), ("08:00", "12:00")], [("08:00", "12:00"), ("22:00", "06:00")], [("15:00", "16:00"), ("09:00", "10:00"), ("12:00", "13:00")]]
WH_DAYS = [["mon"], ["mon", "tue", "wed", "thu", "fri"], ["sat", "sun"], ["fri"], ["sun"], ["mon", "wed", "sun"], ["mon", "tue", "wed", "thu", "fri", "sat", "sun"]]


class MinuteProject:
    def __init__(self):
        self.start = datetime(2025, 1, 6)

    def idxToDate(self, i):
        return self.start + timedelta(minutes=i)

    def isWorkingTime(self, i):
        return False


def c13_grid(job, acc):
    m = mods()
    tier = job["tier"]
    w, W = job["widx"], job["nworkers"]
    if impls() != ["py", "cy"]:
        acc.count("grid-skipped-no-extension")
        return
    n = 0
    bad = 0
    # working hours: every minute of the week x interval sets x day sets (+ zones)
    combos = [(d, s) for d in WH_DAYS for s in WH_SETS]
    for ci, (days, ivs) in enumerate(combos):
        if ci % W != w:
            continue
        wh = m["wh"].WorkingHours(MinuteProject())
        wh.set_hours(days, ivs)
        step = 1 if tier == "thorough" else 3
        for tz in (None, "Asia/Kathmandu" if ci % 2 else "America/New_York"):
            for i in range(0, 7 * 1440, step):
                a = call("cy", wh.onShift, i, tz)
                b = call("py", wh.onShift, i, tz)
                n += 1
                if a != b:
                    bad += 1
                    acc.violation("C13", "onShift-differs", dict(days=days, ivs=ivs, minute=i, tz=tz, cy=a, py=b), [], None)
        for wd in range(7):
            a = call("cy", wh.get_daily_hours, wd)
            b = call("py", wh.get_daily_hours, wd)
            n += 1
            if a != b:
                ms = []
                if a[0] == b[0] == "ok":
                    import struct
                    f32 = struct.unpack("f", struct.pack("f", b[1]))[0]
                    if abs(f32 - a[1]) < 1e-12 and abs(a[1] - b[1]) <= 1e-6 * max(1.0, abs(b[1])):
                        ms = ["daily-hours-float32"]
                acc.violation("C13", "get_daily_hours-differs", dict(days=days, ivs=ivs, weekday=wd, cy=a, py=b), ms, None)
        acc.sig(("C13", "wh", tuple(days), tuple(ivs)))
        acc.count("nontrivial")
    # day d carries a cross-midnight (or plain) set, day d+1 a DIFFERENT plain set: the previous-day lookup must be
    # exercised for every pair of consecutive weekdays incl. sun -> mon (added after M-shadow found what the uniform grid missed)
    names = ["mon", "tue", "wed", "thu", "fri", "sat", "sun"]
    for d in range(7):
        if d % W != w % 7 and W >= 7:
            continue
        if W < 7 and d % W != w:
            continue
        for first in ([("19:50", "04:50")], [("22:00", "06:00")], [("23:59", "00:01")], [("20:00", "23:00")]):
            for second in ([("09:00", "10:10"), ("11:50", "15:30")], [], [("00:00", "02:00")]):
                wh = m["wh"].WorkingHours(MinuteProject())
                wh.set_hours([names[d]], first)
                if second:
                    wh.set_hours([names[(d + 1) % 7]], second)
                for i in range(0, 7 * 1440, 1 if tier == "thorough" else 2):
                    a = call("cy", wh.onShift, i, None)
                    b = call("py", wh.onShift, i, None)
                    n += 1
                    if a != b:
                        acc.violation("C13", "onShift-differs", dict(day=names[d], first=first, next_day=second, minute=i, cy=a, py=b), [], None)
                acc.sig(("C13", "wh2", d, tuple(first), tuple(second)))
                acc.count("nontrivial")
    # scoreboard + project conversions
    resolutions = [60, 300, 600, 900, 1800, 3600] if tier == "quick" else list(range(60, 3601, 60))
    for ri, res in enumerate(resolutions):
        if ri % W != w:
            continue
        for off in (0, 17, 59):
            start = datetime(2025, 1, 1, 0, off)
            end = start + timedelta(seconds=res * 50 + 13)
            sb = m["sb"].Scoreboard(start, end, res)
            fp = FakeProject(start, res)
            P = m["pm"].Project
            for idx in range(-3, sb.size + 3):
                for force in (False, True):
                    a, b = call("cy", sb.idxToDate, idx, force), call("py", sb.idxToDate, idx, force)
                    n += 1
                    if a != b:
                        acc.violation("C13", "Scoreboard.idxToDate-differs", dict(res=res, off=off, idx=idx, force=force, cy=a, py=b), [], None)
                a, b = call("cy", P.idxToDate, fp, idx), call("py", P.idxToDate, fp, idx)
                n += 1
                if a != b:
                    acc.violation("C13", "Project.idxToDate-differs", dict(res=res, off=off, idx=idx, cy=a, py=b), [], None)
            for k in range(-2 * res, res * 52, max(1, res // 3)):
                d = start + timedelta(seconds=k)
                for force in (False, True):
                    a, b = call("cy", sb.dateToIdx, d, force), call("py", sb.dateToIdx, d, force)
                    n += 1
                    if a != b:
                        acc.violation("C13", "Scoreboard.dateToIdx-differs", dict(res=res, off=off, k=k, force=force, cy=a, py=b), [], None)
                a, b = call("cy", P.dateToIdx, fp, d), call("py", P.dateToIdx, fp, d)
                n += 1
                if a != b:
                    acc.violation("C13", "Project.dateToIdx-differs", dict(res=res, off=off, k=k, cy=a, py=b), [], None)
            acc.sig(("C13", "conv", res, off))
            acc.count("nontrivial")
    # far-away instants: years into the horizon, where a 32-bit float no longer holds whole seconds (seeded change C13-b)
    far = [(60, 997), (300, 1009), (900, 991), (1800, 983), (3600, 977)]
    for fi, (res, step) in enumerate(far):
        if fi % W != w:
            continue
        start = datetime(2025, 1, 1)
        fp = FakeProject(start, res)
        P = m["pm"].Project
        top = 3_000_000 if tier == "thorough" else 1_200_000
        for k in range(0, top, step):
            for extra in (0, 1, res - 1):
                d = start + timedelta(seconds=k * res + extra)
                a, b = call("cy", P.dateToIdx, fp, d), call("py", P.dateToIdx, fp, d)
                n += 1
                if a != b:
                    acc.violation("C13", "Project.dateToIdx-differs", dict(res=res, slot=k, extra_s=extra, cy=a, py=b), [], None)
                    break
        sb = m["sb"].Scoreboard(start, start + timedelta(seconds=res * 120_000), res)
        for k in range(0, 120_000, 7):
            d = start + timedelta(seconds=k * res + (k % 3))
            a, b = call("cy", sb.dateToIdx, d, False), call("py", sb.dateToIdx, d, False)
            n += 1
            if a != b:
                acc.violation("C13", "Scoreboard.dateToIdx-differs", dict(res=res, slot=k, cy=a, py=b), [], None)
            a, b = call("cy", sb.idxToDate, k, False), call("py", sb.idxToDate, k, False)
            n += 1
            if a != b:
                acc.violation("C13", "Scoreboard.idxToDate-differs", dict(res=res, slot=k, cy=a, py=b), [], None)
        acc.sig(("C13", "far", res))
        acc.count("nontrivial")
    # the edge of the calendar: instants more than 2^31 slots away (a leave "until 7000-01-01", a gap clamped to
    # datetime.max) - reachable from project text, so both halves must agree there too
    if w == 1 % W:
        for res in (60, 300, 3600):
            start = datetime(2024, 1, 1)
            fp = FakeProject(start, res)
            P = m["pm"].Project
            sb = m["sb"].Scoreboard(start, start + timedelta(days=30), res)
            for d in (datetime(6107, 1, 31), datetime(6200, 1, 1), datetime(7000, 1, 1), datetime(9999, 12, 31, 23, 59), datetime.max.replace(microsecond=0), datetime(1, 1, 1)):
                a, b = call("cy", P.dateToIdx, fp, d), call("py", P.dateToIdx, fp, d)
                n += 1
                if a != b:
                    acc.violation("C13", "Project.dateToIdx-differs", dict(res=res, date=d, cy=a, py=b, where="calendar edge"), [], None)
                for force in (True, False):
                    a, b = call("cy", sb.dateToIdx, d, force), call("py", sb.dateToIdx, d, force)
                    n += 1
                    if a != b:
                        acc.violation("C13", "Scoreboard.dateToIdx-differs", dict(res=res, date=d, force=force, cy=a, py=b, where="calendar edge"), [], None)
            acc.sig(("C13", "edge", res))
            acc.count("nontrivial")
    # large indices (int32 range of idx * granularity)
    if w == 0:
        fp = FakeProject(datetime(2025, 1, 1), 3600)
        P = m["pm"].Project
        for idx in (10, 596523, 596524, 600000, 1000000, 1314000):
            a, b = call("cy", P.idxToDate, fp, idx), call("py", P.idxToDate, fp, idx)
            n += 1
            if a != b:
                ms = ["int32-overflow-idx-times-granularity"] if idx * 3600 >= 2 ** 31 else []
                acc.violation("C13", "Project.idxToDate-differs", dict(res=3600, idx=idx, cy=a, py=b), ms, None)
    # collectIntervals, all patterns of length <= N
    maxn = 10 if tier == "thorough" else 8
    TI = m["TI"]
    for nn in range(2, maxn + 1):
        if (nn - 2) % W != w:
            continue
        start = datetime(2025, 1, 1)
        res = 3600
        sb = m["sb"].Scoreboard(start, start + timedelta(hours=nn - 1), res)
        pred = lambda v: v == 1
        for bits in range(1 << nn):
            for i in range(nn):
                sb[i] = (bits >> i) & 1
            for qa in range(0, nn):
                for qb in range(qa, nn):
                    for mind in (0, 3600, 7200, 10800):
                        iv = TI(start + timedelta(hours=qa), start + timedelta(hours=qb))
                        f = lambda: [(x.start, x.end) for x in sb.collectIntervals(iv, mind, pred)]
                        a, b = call("cy", f), call("py", f)
                        n += 1
                        if a != b:
                            acc.violation("C13", "collectIntervals-differs", dict(pattern=bin(bits), window=(qa, qb), mind=mind, cy=a, py=b), [], None)
        acc.sig(("C13", "collect", nn))
        acc.count("nontrivial")
    acc.count("grid-comparisons", n)
    acc.count("cases", 1)


SHADOW = collections.Counter()


def install_shadow(acc):
    """M-shadow: every accelerated call made by real scheduling is executed with both implementations."""
    m = mods()
    if impls() != ["py", "cy"]:
        return False
    sbm, whm, pmm = m["sb"], m["wh"], m["pm"]

    def shadow(mod, cls, name, label):
        real = getattr(cls, name)

        def wrapper(self, *a, **k):
            old = mod._USE_CYTHON
            try:
                mod._USE_CYTHON = True
                try:
                    ra = ("ok", real(self, *a, **k))
                except Exception as e:
                    ra = ("exc", type(e).__name__, e)
                mod._USE_CYTHON = False
                try:
                    rb = ("ok", real(self, *a, **k))
                except Exception as e:
                    rb = ("exc", type(e).__name__, e)
            finally:
                mod._USE_CYTHON = old
            SHADOW[label] += 1
            if ra[:2] != rb[:2] if ra[0] == "exc" or rb[0] == "exc" else not _same(ra[1], rb[1]):
                SHADOW["mismatch"] += 1
                if SHADOW["mismatch"] <= 20:
                    acc.violation("C13", "shadow-" + label + "-differs", dict(args=common.plain(a), cy=common.plain(ra[:2]), py=common.plain(rb[:2])), [], None)
            if ra[0] == "exc":
                raise ra[2]
            return ra[1]
        setattr(cls, name, wrapper)
    shadow(sbm, sbm.Scoreboard, "idxToDate", "Scoreboard.idxToDate")
    shadow(sbm, sbm.Scoreboard, "dateToIdx", "Scoreboard.dateToIdx")
    shadow(sbm, sbm.Scoreboard, "collectIntervals", "Scoreboard.collectIntervals")
    shadow(pmm, pmm.Project, "idxToDate", "Project.idxToDate")
    shadow(pmm, pmm.Project, "dateToIdx", "Project.dateToIdx")
    shadow(whm, whm.WorkingHours, "onShift", "WorkingHours.onShift")
    shadow(whm, whm.WorkingHours, "get_daily_hours", "WorkingHours.get_daily_hours")
    return True


def _same(a, b):
    if isinstance(a, list) and isinstance(b, list):
        return len(a) == len(b) and all(_same(x, y) for x, y in zip(a, b))
    if hasattr(a, "start") and hasattr(a, "end") and hasattr(b, "start"):
        return a.start == b.start and a.end == b.end
    return a == b and type(a) == type(b) if not isinstance(a, (int, bool)) else a == b


def project_texts(seed, n):
    """deterministic list of (case seed, text) used for fingerprints in every mode"""
    out = []
    kinds = [dict(subslot=True, tz=True, odd_zones=True, aligned=False), dict(core=True, subslot=False), dict(subslot=True, alap=True, tz=True),
             dict(subslot=False, limits=True, tasklimits=True, overrun=True, weeks=(1, 3)), dict(subslot=True, tz=True, crossmid=True, res_choices=(60, 30, 15, 10, 5))]
    i = 0
    while len(out) < n:
        cs = case_seed(seed, 7777, i)
        i += 1
        rnd = random.Random(cs)
        mdl = gen.gen(rnd, **kinds[i % len(kinds)])
        if not mdl["acyclic"]:
            continue
        out.append((cs, gen.render(mdl)))
    return out


def fingerprint(p):
    rows = []
    for sc in range(p.scenarioCount()):
        for t in p.tasks:
            rows.append((t.fullId, sc, bool(t.get("scheduled", sc)), str(t.get("start", sc)), str(t.get("end", sc))))
        for r in p.resources:
            rs = r.data[sc] if r.data else None
            if rs is not None:
                rows.append((r.fullId, sc, sorted((i, [(t.fullId, round(s, 6)) for t, s in lst]) for i, lst in rs.slotTaskUsage.items())))
    rows.append(("end", str(p["end"])))
    # the project's own calendar (working time for gaplength, unallocated work) and every resource's slot table: a fast
    # path wired in at a new place shows here even when no task happens to depend on it (seeded change C13-e)
    try:
        size = p.scoreboardSize()
        rows.append(("project-calendar", common.h12(repr([bool(p.isWorkingTime(i)) for i in range(size)]))))
        for r in p.resources:
            for sc in range(p.scenarioCount()):
                rs = r.data[sc] if r.data else None
                if rs is not None and rs.scoreboard is not None:
                    rows.append((r.fullId, sc, "table", common.h12(repr([(x if isinstance(x, int) or x is None else "task") for x in rs.scoreboard]))))
    except Exception as e:
        rows.append(("calendar-exc", type(e).__name__))
    return common.h12(repr(rows))


def c13_worker(job, acc):
    from . import sched
    mode = job.get("ext")
    role = job["params"].get("role", "fingerprint")
    if role == "grid":
        c13_grid(job, acc)
        return
    texts = project_texts(job["seed"], job["params"]["nprojects"])
    w, W = job["params"]["slice"]
    shadow_on = False
    if role == "shadow":
        shadow_on = install_shadow(acc)
        if not shadow_on:
            acc.count("shadow-skipped-no-extension")
    fps = {}
    for i, (cs, text) in enumerate(texts):
        if i % W != w:
            continue
        signal.alarm(60)
        try:
            p, _ = sched.parse(text)
            fps[str(cs)] = fingerprint(p)
            acc.count("projects")
        except CaseTimeout:
            acc.count("case-timeout")
        except Exception as e:
            fps[str(cs)] = "EXC:" + type(e).__name__
            acc.count("projects")
        finally:
            signal.alarm(0)
    acc.notes.append("FPS " + common.dumps(dict(mode=mode, role=role, fps=fps)))
    if shadow_on:
        for k, v in SHADOW.items():
            acc.count("shadow:" + k, v)
        acc.count("shadow-calls", sum(v for k, v in SHADOW.items() if k != "mismatch"))
    if texts:
        acc.sample(dict(kind="whole project under mode " + str(mode), seed=texts[0][0], text=texts[0][1][:1500], fingerprint=fps.get(str(texts[0][0]))), limit=1)


def worker(job, acc):
    if job["prop"] == "C17":
        c17_worker(job, acc)
    else:
        c13_worker(job, acc)


# ---------------------------------------------------------------------------------------------- C13 driver

def drive(prop, tier, seed, cfg):
    if prop == "C17":
        from .. import main as M
        return M.drive_batches(prop, tier, seed, cfg)
    tc = cfg[tier]
    notes = []
    cydir, err = cybuild.build()
    if cydir is None:
        return dict(C=collections.Counter(), sigs=set(), viols=[], vc=collections.Counter(), samples=[], notes=["fresh build failed: %s" % err],
                    status=collections.Counter({"crash": 1}), nworkers=0)
    sandir, serr = cybuild.build(sanitize=True)
    W = common.NCPU
    nproj = tc["projects"]
    jobs = []
    base = dict(prop="C13", module="vlib.props.native", tier=tier, seed=seed, nworkers=W, ncases=0, cydir=cydir, hard_timeout=tc.get("budget_s", 600) + 300)
    ng = max(4, W // 2)
    for w in range(ng):
        jobs.append(dict(base, widx=w, nworkers=ng, ext="fresh", params=dict(role="grid")))
    k = 4
    intree = glob.glob(os.path.join(common.REPO, "scriptplan", "_cython", "*_cy*.so"))
    for w in range(k):
        jobs.append(dict(base, widx=w, ext="pure", params=dict(role="fingerprint", nprojects=nproj, slice=(w, k))))
        jobs.append(dict(base, widx=w, ext="fresh", params=dict(role="fingerprint", nprojects=nproj, slice=(w, k))))
        jobs.append(dict(base, widx=w, ext="fresh", params=dict(role="shadow", nprojects=max(20, nproj // 4), slice=(w, k))))
        if len(intree) == 3:
            jobs.append(dict(base, widx=w, ext="intree", params=dict(role="fingerprint", nprojects=nproj, slice=(w, k))))
    san_logs = None
    if sandir and cybuild.ASAN_RT:
        san_logs = os.path.join(common.WORK, "san-%d" % os.getpid())
        shutil.rmtree(san_logs, ignore_errors=True)
        os.makedirs(san_logs)
        env = {"LD_PRELOAD": cybuild.ASAN_RT, "ASAN_OPTIONS": "detect_leaks=0:halt_on_error=0:log_path=%s/asan" % san_logs,
               "UBSAN_OPTIONS": "print_stacktrace=1:halt_on_error=0:log_path=%s/ubsan" % san_logs}
        for w in range(2):
            jobs.append(dict(base, widx=w, nworkers=2, ext="fresh", cydir=sandir, env=env, params=dict(role="grid", sanitized=True)))
        jobs.append(dict(base, widx=0, ext="fresh", cydir=sandir, env=env, params=dict(role="fingerprint", sanitized=True, nprojects=max(10, nproj // 8), slice=(0, 1))))
    else:
        notes.append("sanitized build unavailable: %s" % (serr or "no asan runtime"))
    results = pool.run_jobs(jobs, W, tag="C13")
    from .. import main as M
    C, sigs, viols, vc, samples, wnotes, status = M.merge(results)
    # cross-mode fingerprint comparison
    byname = collections.defaultdict(dict)
    keep_notes = []
    for n in wnotes:
        if n.startswith("FPS "):
            d = common.loads(n[4:])
            byname[(d["mode"], d["role"])].update(d["fps"])
        else:
            keep_notes.append(n)
    ref = byname.get(("pure", "fingerprint"), {})
    ncmp = 0
    for (mode, role), fps in byname.items():
        if (mode, role) == ("pure", "fingerprint"):
            continue
        for cs, fp in fps.items():
            if cs in ref:
                ncmp += 1
                if ref[cs] != fp:
                    if mode == "intree":
                        C["stale-intree-extension-differs"] += 1   # a note about the build artefact, not about the source tree
                        continue
                    key = ("C13", "project-fingerprint-differs", ())
                    vc[key] += 1
                    text = dict(project_texts(seed, nproj)).get(int(cs), "")
                    viols.append(dict(prop="C13", clause="project-fingerprint-differs", detail=dict(seed=cs, mode=mode, role=role, pure=ref[cs], other=fp), mechs=[],
                                      replay=dict(property="C13", clause="project-fingerprint-differs", seed=int(cs), text=text, mode=mode)))
    C["fingerprint-comparisons"] = ncmp
    for (mode, role), fps in byname.items():
        sigs.update("fp:%s" % v for v in list(fps.values())[:400])
    # sanitizer reports
    if san_logs:
        blocks = collections.Counter()
        for f in glob.glob(os.path.join(san_logs, "*")):
            try:
                txt = open(f, errors="replace").read()
            except OSError:
                continue
            for line in txt.splitlines():
                if "runtime error:" in line:
                    where = line.split(" runtime error:")[0].split("/")[-1]
                    blocks[("ubsan", where + ": " + line.split("runtime error:")[1].strip()[:80])] += 1
                elif "ERROR: AddressSanitizer" in line:
                    blocks[("asan", line.split("ERROR: AddressSanitizer:")[1].strip()[:80])] += 1
        C["sanitizer-report-blocks"] = sum(blocks.values())
        C["sanitizer-distinct-reports"] = len(blocks)
        C["sanitized-workers"] = sum(1 for j, r, s in results if j.get("params", {}).get("sanitized") and s == "ok")
        for (kind, what), n in blocks.items():
            ms = ["int32-overflow-idx-times-granularity"] if ("signed integer overflow" in what and "time_utils_cy" in what) else []
            vc[("C13", "sanitizer-" + kind, tuple(ms))] += 1
            viols.append(dict(prop="C13", clause="sanitizer-" + kind, detail=dict(report=what, count=n), mechs=ms, replay=None))
        shutil.rmtree(san_logs, ignore_errors=True)
    return dict(C=C, sigs=sigs, viols=viols, vc=vc, samples=samples, notes=notes + keep_notes, status=status, nworkers=W)


def replay(prop, rp, acc):
    """fingerprint of the recorded text under the pure-Python implementation (the driver compares modes)"""
    from . import sched
    p, _ = sched.parse(rp["text"])
    print("pure fingerprint:", fingerprint(p), "recorded:", rp.get("observed"))
