"""C18: reports say what was scheduled.  Real Report objects built by the real parser; the expected row list and cells
are computed from the generator's model and from the scheduled values read through the plain task API.
M-report: deep snapshot of the schedule (all scenarios + ledgers) before/after every generation."""
import csv
import io
import json
import os
import random
import shutil
import tempfile

from .. import common, gen, indep, monitors, oracles
from . import sched
from .c12 import fp_project

TIMEFORMATS = [None, "%Y-%m-%d", "%Y-%m-%d %H:%M", "%d.%m.%Y %H:%M", "%Y-%m-%d-%H:%M", "%H:%M %a %d %b %Y", "%Y%m%dT%H%M%S", "%j/%y %H.%M"]
COLS = ["id", "name", "start", "end", "effort", "priority", "cost"]
REAL = {}


def setup(job, acc):
    from scriptplan.report import report as rm
    real_gen = rm.Report.generate_intermediate_format

    def gif(self):
        monitors.COUNT["report.generate_intermediate_format"] += 1
        return real_gen(self)
    rm.Report.generate_intermediate_format = gif


def report_defs(rnd, m):
    defs = []
    for k in range(rnd.randint(1, 3)):
        cols = rnd.sample(COLS, rnd.randint(1, len(COLS)))
        if "id" not in cols and rnd.random() < 0.7:
            cols.insert(rnd.randrange(len(cols) + 1), "id")
        titles = {}
        for c in cols:
            if rnd.random() < 0.2:
                titles[c] = "T%s%d" % (c.capitalize(), k)
        d = dict(id="rep%d" % k, cols=cols, titles=titles, timeformat=rnd.choice(TIMEFORMATS), leaf=rnd.choice([None, True, False]),
                 formats=rnd.choice(["json", "csv", "json, csv"]))
        defs.append(d)
    return defs


def render_reports(defs):
    out = []
    for d in defs:
        cols = ", ".join((c + (' { title "%s" }' % d["titles"][c] if c in d["titles"] else "")) for c in d["cols"])
        L = ['taskreport %s "%s" {' % (d["id"], d["id"]), "  formats %s" % d["formats"], "  columns %s" % cols]
        if d["timeformat"]:
            # every third report writes its format in single quotes (the same string)
            q = "'" if (len(d["timeformat"]) + len(d["cols"])) % 3 == 0 and "'" not in d["timeformat"] else '"'
            L.append("  timeformat %s%s%s" % (q, d["timeformat"], q))
        if d["leaf"] is not None:
            L.append("  leaftasksonly %s" % ("true" if d["leaf"] else "false"))
        if d.get("scenarios"):
            L.append("  scenarios %s" % ", ".join(d["scenarios"]))     # the report shows the scenario it names FIRST
        L.append("}")
        out.append("\n".join(L))
    return "\n".join(out) + "\n"


def expected_rows(m, p, d, project_tf, sc=0):
    """independent row list: declaration order, leaves only if asked; cells rendered from scheduled values"""
    tf = d["timeformat"] or project_tf or "%Y-%m-%d"
    rates = {r["id"]: r.get("rate") for r in m["resources"]}
    obs = oracles.Obs(p, sc)
    rows = []
    for t in gen.decl_order(m):
        if d["leaf"] and t["container"]:
            continue
        tid_ = indep.tid(t["path"])
        o = obs.T[tid_]
        row = []
        for c in d["cols"]:
            if c == "id":
                row.append(tid_)
            elif c == "name":
                row.append(t.get("name", t["path"][-1]))
            elif c in ("start", "end"):
                v = o[c]
                row.append(v.strftime(tf) if (v is not None and o["sch"]) else ("" if not o["sch"] else ""))
            elif c == "priority":
                row.append(None)     # inherited priority: rendering of the inherited value is not claimed
            elif c == "effort":
                eff = t.get("sc_effort", {}).get(d.get("scenarios", [None])[0] if d.get("scenarios") else None, t.get("effort_min"))
                row.append("%.2f" % (eff / 60.0) if "effort_min" in t else None)
            elif c == "cost":
                cost = 0.0
                for rid, sl in obs.per_task.get(tid_, {}).items():
                    if rates.get(rid):
                        cost += sum(sl.values()) / 3600.0 * rates[rid]
                row.append(("%.2f" % cost) if cost > 0 else "")
        rows.append(row)
    return rows, obs


def run_case(rnd, cs, job, acc):
    kinds = [dict(subslot=True, tz=False), dict(core=True, subslot=False), dict(subslot=True, alap=True), dict(subslot=False, limits=True, tasklimits=True, overrun=True, days=(4, 8)),
             dict(subslot=True, teams=True, alts=True)]
    kw = dict(rnd.choice(kinds))
    kw.setdefault("res_choices", (60, 60, 30, 15))
    m = gen.gen(rnd, **kw)
    if not m["acyclic"]:
        acc.count("skipped-cyclic")
        return
    for r in m["resources"]:
        if rnd.random() < 0.7:
            r["rate"] = rnd.choice([10, 12.5, 80, 99.99, 250])
    for i, t in enumerate(m["tasks"]):
        if rnd.random() < 0.3:
            t["name"] = rnd.choice(["Design phase", "Écriture", "a, b; c", "x 'quoted'", "tab\there", "  padded "]) + str(i)
    if rnd.random() < 0.35:
        # local ids reused in different containers and at root level, prefix ids, keyword-like ids (seeded change C18-a:
        # anything keyed by the local id instead of the full id collides)
        from .meta import rename_model
        m, _ = rename_model(rnd, m)
    for t in m["tasks"]:
        # the same resource named twice in one allocation (as a team member, or as its own alternative): the derived
        # money column is rate x booked time all the same
        if "effort_min" in t and len(t.get("alloc", [])) == 1 and rnd.random() < 0.06:
            if rnd.random() < 0.5:
                t["alloc"] = t["alloc"] * 2
            else:
                t["alt"] = list(t["alloc"])
    project_tf = rnd.choice([None, None, "%Y-%m-%d %H:%M", "%d/%m/%Y"])
    if project_tf:
        m["timeformat"] = project_tf
    defs = report_defs(rnd, m)
    scen = None
    SIDS = ["plan", "delayed", "alt"]
    if rnd.random() < 0.12:
        # several scenarios with different efforts; a report may name scenarios in any order and shows the first one
        scen = ['scenario plan "p" {', '  scenario delayed "d"', '  scenario alt "a"', "}"]
        for t in m["tasks"]:
            if "effort_min" in t and not t.get("effort_inherited") and rnd.random() < 0.5:
                t["sc_effort"] = {rnd.choice(SIDS[1:]): t["effort_min"] + rnd.choice([1, 2, 5]) * m["res"]}
        for d in defs:
            if rnd.random() < 0.7:
                d["scenarios"] = rnd.sample(SIDS, rnd.randint(1, 3))
    text = gen.render(m, scenarios=scen, trailer=render_reports(defs))
    outdir = tempfile.mkdtemp(prefix="c18-", dir=common.WORK)
    try:
        p, _ = sched.parse(text)
        p.outputDir = outdir
        snap0 = fp_project(p)
        reps = {r.id: r for r in p.reports}
        rp_base = dict(property="C18", seed=cs, model=m, text=text)
        for d in defs:
            rep = reps.get(d["id"])
            if rep is None:
                acc.violation("C18", "report-missing", dict(report=d["id"]), [], dict(rp_base, clause="report-missing"))
                continue
            outs = []
            for k in range(3):
                rep.generate_intermediate_format()
                js, cs_rows = rep.to_json(), rep.to_csv()
                outs.append((json.dumps(js, sort_keys=True, default=str), repr(cs_rows)))
                acc.count("generations")
            if len(set(outs)) != 1:
                acc.violation("C18", "repeated-generation-differs", dict(report=d["id"]), [], dict(rp_base, clause="repeated-generation-differs"))
            if fp_project(p) != snap0:
                acc.violation("C18", "generation-altered-the-schedule", dict(report=d["id"]), [], dict(rp_base, clause="generation-altered-the-schedule"))
                snap0 = fp_project(p)
            want, obs = expected_rows(m, p, d, project_tf, sc=(SIDS.index(d["scenarios"][0]) if (scen and d.get("scenarios")) else 0))
            header = [d["titles"].get(c) for c in d["cols"]]
            # ---- CSV cells
            if not cs_rows:
                acc.violation("C18", "empty-report", dict(report=d["id"]), [], dict(rp_base, clause="empty-report"))
                continue
            body = cs_rows[1:]
            hdr = cs_rows[0]
            # (column titles are not part of the property: observed, not demanded)
            for c, title, h in zip(d["cols"], header, hdr):
                if title is not None and h != title:
                    acc.count("column-title-option-ignored")
            if len(body) != len(want):
                acc.violation("C18", "row-count", dict(report=d["id"], got=len(body), want=len(want), leaf=d["leaf"], got_ids=[r[:1] for r in body][:8]), [],
                              dict(rp_base, clause="row-count"))
                continue
            for ri, (g, w) in enumerate(zip(body, want)):
                for ci, (gc, wc) in enumerate(zip(g, w)):
                    acc.count("cells-checked")
                    if wc is not None and gc != wc:
                        col = d["cols"][ci]
                        if col == "cost":
                            # two decimals: a value on a half-cent boundary may round either way (float summation order)
                            try:
                                if abs(float(gc or 0) - float(wc or 0)) <= 0.0101:
                                    continue
                            except ValueError:
                                pass
                        ms = []
                        if col in ("start", "end") and d["timeformat"] == "%Y-%m-%d" and project_tf and project_tf != "%Y-%m-%d":
                            ms.append("explicit-default-timeformat-overridden-by-project")
                        tid_ = indep.tid(gen.decl_order(m)[0]["path"])
                        acc.violation("C18", "cell:" + col, dict(report=d["id"], row=ri, id=w[d["cols"].index("id")] if "id" in d["cols"] else ri, got=gc, want=wc,
                                                                  timeformat=d["timeformat"], project_timeformat=project_tf), ms, dict(rp_base, clause="cell:" + col))
                        break
                else:
                    continue
                break
            # ---- JSON cells == CSV cells
            if js is None or "data" not in js:
                acc.violation("C18", "json-missing", dict(report=d["id"]), [], dict(rp_base, clause="json-missing"))
            else:
                keys = [h.lower() for h in hdr]
                if len(set(keys)) == len(keys):
                    jrows = [[rec.get(k2, "") for k2 in keys] for rec in js["data"]]
                    if jrows != [list(r) for r in body]:
                        bad = [(a, b) for a, b in zip(jrows, body) if list(a) != list(b)][:1]
                        acc.violation("C18", "json-and-csv-cells-differ", dict(report=d["id"], first=bad, nj=len(jrows), nc=len(body)), [],
                                      dict(rp_base, clause="json-and-csv-cells-differ"))
                    acc.count("json-csv-comparisons")
            # ---- files written by generate() carry the same cells
            rep.generate()
            acc.count("file-generations")
            for fmt in [f.strip() for f in d["formats"].split(",")]:
                path = os.path.join(outdir, "%s.%s" % (d["id"], fmt))
                if not os.path.exists(path):
                    acc.violation("C18", "file-not-written", dict(report=d["id"], fmt=fmt, listing=os.listdir(outdir)), [], dict(rp_base, clause="file-not-written"))
                    continue
                if fmt == "csv":
                    rows = [r for r in csv.reader(open(path, newline="", encoding="utf-8"))]
                    if rows != [list(map(str, r)) for r in cs_rows]:
                        acc.violation("C18", "csv-file-differs-from-cells", dict(report=d["id"], first=[(a, b) for a, b in zip(rows, cs_rows) if a != list(b)][:1]), [],
                                      dict(rp_base, clause="csv-file-differs-from-cells"))
                else:
                    data = json.load(open(path, encoding="utf-8"))
                    if data.get("data") != js.get("data"):
                        acc.violation("C18", "json-file-differs-from-cells", dict(report=d["id"]), [], dict(rp_base, clause="json-file-differs-from-cells"))
            if fp_project(p) != snap0:
                acc.violation("C18", "generation-altered-the-schedule", dict(report=d["id"], step="generate()"), [], dict(rp_base, clause="generation-altered-the-schedule"))
            nun = sum(1 for o in obs.T.values() if not o["sch"])
            acc.sig(("C18", tuple(d["cols"]), d["timeformat"], project_tf, d["leaf"], d["formats"], nun > 0, bool(d["titles"])))
            acc.count("nontrivial")
            acc.count("reports")
        acc.sample(dict(seed=cs, report_definitions=defs, text_tail=text[-500:], first_rows=(reps[defs[0]["id"]].to_csv() or [])[:4] if defs and defs[0]["id"] in reps else None), limit=2)
    finally:
        shutil.rmtree(outdir, ignore_errors=True)


def teardown(job, acc):
    for k, v in monitors.counts().items():
        acc.count("monitor:" + k, v)


def replay(prop, rp, acc):
    setup({}, acc)
    os.makedirs(common.WORK, exist_ok=True)
    p, _ = sched.parse(rp["text"])
    for rep in p.reports:
        rep.generate_intermediate_format()
        print(rep.id, (rep.to_csv() or [])[:6])
