"""C19 (output contract of `plan report`) and C20 (no trace, no interference).  The REAL entry point /venv/bin/plan is
run as separate OS processes with $VERIF_REPO first on PYTHONPATH.
 * C19: stdout / stderr / exit status per invocation against the API's result for the same bytes;
 * C20: M-fs = strace -f of every process (create / unlink / mkdir / rmdir / rename with a common clock, delays
   injected on the mutating calls to perturb interleavings), directory snapshots, solitary-run reference bytes,
   failpoints injected through a harness-side sitecustomize, SIGINT at random instants."""
import collections
import concurrent.futures as cf
import csv
import hashlib
import io
import json
import os
import random
import re
import shutil
import signal
import subprocess
import sys
import tempfile
import time

from .. import common, gen, pool
from ..worker import case_seed

PLAN = os.environ.get("VERIF_PLAN", "/venv/bin/plan")
FMT = "%Y-%m-%d-%H:%M"


def cli_env(tmpdir, extra=None):
    env = dict(os.environ)
    env["PYTHONPATH"] = common.REPO
    env["PYTHONDONTWRITEBYTECODE"] = "1"
    env["PYTHONHASHSEED"] = "0"
    env["TMPDIR"] = tmpdir
    env["NO_COLOR"] = "1"
    env.pop("VERIF_FAILPOINT", None)
    if extra:
        env.update(extra)
    return env


def own_reports(rnd, n):
    out = []
    for k in range(n):
        fm = rnd.choice(["json", "csv", "json, csv"])
        cols = rnd.choice(["id, name", "name, id, end", "id", "start, end, id", "id, effort"])
        # file names with directory levels that do not exist yet (seeded change C19-c: only one level was created)
        name = rnd.choice(["own%d", "own%d", "reports/own%d", "reports/2024/q1/own%d", "./own%d", "a/b/c/d/own%d"]) % k
        out.append('taskreport own%d "%s" {\n  formats %s\n  columns %s\n}\n' % (k, name, fm, cols))
    return "".join(out)


def make_texts(seed, n, with_reports=True):
    """[(model, text without own reports, text with own reports, n own)]"""
    out = []
    kinds = [dict(subslot=True, tz=False), dict(core=True, subslot=False), dict(subslot=True, alap=True), dict(subslot=False, limits=True, tasklimits=True, overrun=True, days=(4, 8)),
             dict(subslot=True, tz=True)]
    i = 0
    while len(out) < n:
        cs = case_seed(seed, 1919, i)
        i += 1
        rnd = random.Random(cs)
        m = gen.gen(rnd, **kinds[i % len(kinds)])
        if not m["acyclic"]:
            continue
        base = gen.render(m)
        nown = rnd.randint(0, 3) if with_reports else 0
        out.append((m, base, base + own_reports(rnd, nown), nown))
    return out


# ---------------------------------------------------------------------------------------------- API side (pool worker)

def worker(job, acc):
    """role 'api': schedule the texts through the API and return the expected rows"""
    from . import sched
    texts = make_texts(job["seed"], job["params"]["n"])
    res = {}
    for i, (m, base, full, nown) in enumerate(texts):
        if i % job["nworkers"] != job["widx"]:
            continue
        try:
            p, _ = sched.parse(full)
            f = lambda d: d.strftime(FMT) if d else ""
            # unscheduled tasks have empty dates (C18); the dates of scheduled ones are the API's
            rows = [[t.fullId, f(t.get("start", 0)) if t.get("scheduled", 0) else "", f(t.get("end", 0)) if t.get("scheduled", 0) else ""] for t in p.tasks]
            allsched = all(t.get("scheduled", 0) for t in p.tasks if t.leaf())
            res[str(i)] = dict(rows=rows, allsched=bool(allsched))
        except BaseException as e:
            res[str(i)] = dict(exc=type(e).__name__)
        acc.count("api-projects")
    acc.notes.append("API " + common.dumps(res))


def api_rows(seed, n):
    W = min(common.NCPU, 8)
    jobs = [dict(prop="C19", module="vlib.props.cli", tier="quick", seed=seed, widx=w, nworkers=W, ncases=0, ext="pure", params=dict(n=n), hard_timeout=600) for w in range(W)]
    results = pool.run_jobs(jobs, W, tag="C19api")
    out = {}
    bad = 0
    for job, res, st in results:
        if st != "ok":
            bad += 1
            continue
        for nte in res.get("notes", []):
            if nte.startswith("API "):
                out.update(common.loads(nte[4:]))
    return out, bad


def run_plan(args, cwd, tmpdir, stdin_bytes=None, timeout=180, extra_env=None):
    try:
        r = subprocess.run([PLAN] + args, cwd=cwd, env=cli_env(tmpdir, extra_env), input=stdin_bytes if stdin_bytes is not None else None,
                           stdin=None if stdin_bytes is not None else subprocess.DEVNULL, capture_output=True, timeout=timeout)
        return r.returncode, r.stdout, r.stderr
    except subprocess.TimeoutExpired:
        return "timeout", b"", b""


def parse_stdout(fmt, out):
    """returns (ok, columns, rows, report_id, problem)"""
    try:
        s = out.decode("utf-8")
    except UnicodeDecodeError:
        return False, None, None, None, "stdout is not UTF-8"
    if fmt == "json":
        try:
            d = json.loads(s)
        except Exception as e:
            return False, None, None, None, "stdout is not one JSON document: %s" % str(e)[:80]
        if not isinstance(d, dict) or set(d) != {"data", "columns", "report_id"}:
            return False, None, None, None, "JSON keys %s" % (sorted(d) if isinstance(d, dict) else type(d).__name__)
        rows = [[str(x.get(c, "")) if x.get(c) is not None else "" for c in ("id", "start", "end")] for x in d["data"]]
        return True, d["columns"], rows, d["report_id"], None
    rows = [r for r in csv.reader(io.StringIO(s)) if r]
    if not rows:
        return False, None, None, None, "empty CSV"
    if any(len(r) != 3 for r in rows):
        return False, None, None, None, "CSV line without exactly 3 fields: %r" % [r for r in rows if len(r) != 3][:1]
    return True, [c.lower() for c in rows[0]], [list(r) for r in rows[1:]], None, None


# =============================================================================================== C19

def drive_c19(tier, seed, cfg):
    tc = cfg[tier]
    n = tc["projects"]
    texts = make_texts(seed, n)
    api, badw = api_rows(seed, n)
    C = collections.Counter()
    sigs = set()
    viols = []
    vc = collections.Counter()
    samples = []
    notes = []
    status = collections.Counter({"ok": 1} if not badw else {"crash": badw})
    root = tempfile.mkdtemp(prefix="c19-", dir=_workroot())

    def add(clause, detail, rp=None):
        vc[("C19", clause, ())] += 1
        if sum(1 for v in viols if v["clause"] == clause) < 4:
            viols.append(dict(prop="C19", clause=clause, detail=common.plain(detail), mechs=[], replay=rp))

    def one_project(i):
        m, base, full, nown = texts[i]
        exp = api.get(str(i))
        loc = collections.Counter()
        out_v = []
        d = os.path.join(root, "p%d" % i)
        cwd, tmp = os.path.join(d, "cwd"), os.path.join(d, "tmp")
        os.makedirs(cwd)
        os.makedirs(tmp)
        variants = [("own", full)]
        if nown:
            variants.append(("plain", base))
        got = {}
        for vname, text in variants:
            data = text.encode("utf-8")
            with open(os.path.join(cwd, vname + ".tjp"), "wb") as f:
                f.write(data)
            digest = hashlib.sha256(data).hexdigest()
            for fmt in ("json", "csv"):
                for ch in ("file", "stdin-", "stdin"):
                    for rep in range(2 if (nown and fmt == "json" and ch == "file") else 1):
                        # diagnostics must go to stderr in every verbosity: default (progress lines), --quiet, --verbose
                        verbosity = {"file": ["--quiet"], "stdin-": [], "stdin": ["--verbose"]}[ch] if (i + rep) % 2 == 0 else \
                                    {"file": [], "stdin-": ["--verbose"], "stdin": ["--quiet"]}[ch]
                        args = verbosity + ["report"] + (["--csv"] if fmt == "csv" else [])
                        if ch == "file":
                            args.append(vname + ".tjp")
                        elif ch == "stdin-":
                            args.append("-")
                        rc, so, se = run_plan(args, cwd, tmp, data if ch != "file" else None)
                        loc["invocations"] += 1
                        key = (vname, fmt, ch, rep)
                        got[key] = (rc, so)
                        rp = dict(property="C19", text=text, args=args, channel=ch, stdout=so[:2000].decode("utf-8", "replace"), stderr=se[-600:].decode("utf-8", "replace"), rc=rc)
                        if exp is None or "exc" in exp:
                            # the API rejects this text: the CLI must fail with 2 and print nothing
                            if rc != 2 or so:
                                out_v.append(("rejected-by-api-but-cli-rc/stdout", dict(rc=rc, stdout=so[:100], api=exp), rp))
                            continue
                        if rc == 0:
                            ok, cols, rows, rid, prob = parse_stdout(fmt, so)
                            if not ok:
                                out_v.append(("stdout-not-exactly-the-report", dict(problem=prob, fmt=fmt, channel=ch), rp))
                                continue
                            if cols != ["id", "start", "end"]:
                                out_v.append(("wrong-columns", dict(columns=cols, fmt=fmt, own_reports=nown, channel=ch), rp))
                            elif rows != exp["rows"]:
                                bad = [(a, b) for a, b in zip(rows, exp["rows"]) if a != b][:2] or [("len", len(rows), len(exp["rows"]))]
                                out_v.append(("rows-differ-from-api", dict(first=bad, fmt=fmt, own_reports=nown, channel=ch), rp))
                            if fmt == "json" and rid != digest:
                                out_v.append(("report_id-not-sha256-of-input", dict(report_id=rid, sha256=digest, channel=ch), rp))
                        elif rc == 2 and not exp["allsched"]:
                            if so:
                                out_v.append(("stdout-not-empty-on-failure", dict(rc=rc, stdout=so[:100]), rp))
                        else:
                            out_v.append(("unexpected-exit-status", dict(rc=rc, allsched=exp["allsched"], stderr=se[-200:], channel=ch, fmt=fmt), rp))
                        if rc != 0 and so and not any(v[0] == "stdout-not-empty-on-failure" for v in out_v):
                            out_v.append(("stdout-not-empty-on-failure", dict(rc=rc, stdout=so[:100]), rp))
        # the same bytes under file names without the .tjp suffix: stdout must be byte-identical (seeded change C19-b)
        for alias in ("copy.txt", "copy_noext", "copy.tjp.bak", "line\nbreak.tjp", "odd \xe9\udcff name.tjp"):
            data = full.encode("utf-8")
            try:
                # (the last two names: a line break / bytes that are not UTF-8 in the file NAME - the name is not project text)
                with open(os.path.join(cwd, alias), "wb") as f:
                    f.write(data)
            except (OSError, UnicodeError):
                continue
            for fmt in ("json", "csv"):
                rc, so, se = run_plan(["--quiet", "report"] + (["--csv"] if fmt == "csv" else []) + [alias], cwd, tmp, None)
                loc["invocations"] += 1
                ref0 = got.get(("own", fmt, "file", 0))
                if ref0 and (rc, so) != ref0:
                    out_v.append(("output-depends-on-file-name", dict(alias=alias, fmt=fmt, rc=rc, stdout=so[:160], with_tjp_name=(ref0[0], ref0[1][:160])),
                                  dict(property="C19", text=full, args=["report", alias], fmt=fmt, stdout=so[:600].decode("utf-8", "replace"))))
            if alias == "copy_noext" and i % 3:
                continue
            if alias == "copy.tjp.bak" and i % 3 != 1:
                continue
        # the same run in another environment: temporary directory reached through a symbolic link (the default on some
        # systems: /tmp -> private/tmp) - stdout must be byte-identical (seeded change C19-d compared a resolved path
        # with an unresolved one)
        link = os.path.join(os.path.dirname(tmp), "tmp-link-%d" % i)
        if not os.path.lexists(link):
            os.symlink(tmp, link)
        for fmt in ("json", "csv"):
            for ch in (("file",) if i % 2 else ("file", "stdin")):
                args = ["--quiet", "report"] + (["--csv"] if fmt == "csv" else []) + (["own.tjp"] if ch == "file" else [])
                if ch == "file" and not os.path.exists(os.path.join(cwd, "own.tjp")):
                    with open(os.path.join(cwd, "own.tjp"), "wb") as f:
                        f.write(full.encode("utf-8"))
                rc, so, se = run_plan(args, cwd, link, full.encode("utf-8") if ch == "stdin" else None)
                loc["invocations"] += 1
                loc["symlinked-tmpdir-invocations"] += 1
                ref0 = got.get(("own", fmt, "file", 0))
                if ref0 and (rc, so) != ref0:
                    out_v.append(("output-depends-on-tmpdir-spelling", dict(fmt=fmt, channel=ch, rc=rc, stdout=so[:160], stderr=se[-200:], reference=(ref0[0], ref0[1][:160])),
                                  dict(property="C19", text=full, args=args, fmt=fmt, tmpdir="symbolic link to the real directory", stdout=so[:600].decode("utf-8", "replace"))))
        # file == stdin, repeated runs identical, own reports do not change the rows
        for vname, _ in variants:
            for fmt in ("json", "csv"):
                ref = got.get((vname, fmt, "file", 0))
                for ch in ("stdin-", "stdin"):
                    g = got.get((vname, fmt, ch, 0))
                    if ref and g and ref != g:
                        out_v.append(("file-and-stdin-differ", dict(fmt=fmt, channel=ch, file=(ref[0], ref[1][:120]), stdin=(g[0], g[1][:120])),
                                      dict(property="C19", text=dict(variants)[vname], fmt=fmt)))
                g2 = got.get((vname, fmt, "file", 1))
                if ref and g2 and ref != g2:
                    out_v.append(("repeated-run-differs", dict(fmt=fmt, first=ref[1][:200], second=g2[1][:200]), dict(property="C19", text=dict(variants)[vname], fmt=fmt)))
        if nown:
            for fmt in ("json", "csv"):
                a, b = got.get(("own", fmt, "file", 0)), got.get(("plain", fmt, "file", 0))
                if a and b and a[0] == b[0] == 0:
                    pa, pb = parse_stdout(fmt, a[1]), parse_stdout(fmt, b[1])
                    if pa[0] and pb[0] and (pa[1], pa[2]) != (pb[1], pb[2]):
                        out_v.append(("own-reports-change-the-output", dict(fmt=fmt, nown=nown), dict(property="C19", text=full, fmt=fmt)))
        left = os.listdir(tmp)
        if left:
            loc["tmp-left-behind"] += 1
        shutil.rmtree(d, ignore_errors=True)
        sig = ("C19", nown, bool(exp and exp.get("allsched")), bool(exp and "exc" in exp), m["alap"], min(len(m["tasks"]), 8))
        return loc, out_v, sig, (texts[i][2][:600], {k2: (v[0], v[1][:160].decode("utf-8", "replace")) for k2, v in list(got.items())[:2]})

    with cf.ThreadPoolExecutor(max_workers=common.NCPU) as ex:
        for loc, out_v, sig, smp in ex.map(one_project, range(n)):
            C.update(loc)
            sigs.add(common.dumps(sig))
            for clause, detail, rp in out_v:
                add(clause, detail, dict(rp or {}, clause=clause))
            if len(samples) < 2:
                samples.append(common.plain(dict(text=smp[0], invocations=smp[1])))
    # ---- bad-input classes
    bd = os.path.join(root, "bad")
    cwd, tmp = os.path.join(bd, "cwd"), os.path.join(bd, "tmp")
    os.makedirs(cwd)
    os.makedirs(tmp)
    good = texts[0][1].encode()
    os.mkdir(os.path.join(cwd, "adir.tjp"))
    open(os.path.join(cwd, "empty.tjp"), "wb").close()
    open(os.path.join(cwd, "blank.tjp"), "wb").write(b"  \n\t\n\n")
    open(os.path.join(cwd, "blanku.tjp"), "wb").write("\u00a0\u2028 \n\u0085".encode("utf-8"))
    open(os.path.join(cwd, "syntax.tjp"), "wb").write(good.replace(b"{", b"{ {", 1))
    open(os.path.join(cwd, "trunc.tjp"), "wb").write(good[: len(good) // 2])
    open(os.path.join(cwd, "badname.tjp"), "wb").write(good + b'taskreport bad "a:b" { formats json columns id }\n')
    open(os.path.join(cwd, "crlf.tjp"), "wb").write(good.replace(b"\n", b"\r\n"))
    open(os.path.join(cwd, "bom.tjp"), "wb").write(b"\xef\xbb\xbf" + good)
    open(os.path.join(cwd, "latin1.tjp"), "wb").write(good.replace(b'"P"', b'"P\xe9"'))
    open(os.path.join(cwd, "utf8name.tjp"), "wb").write(good.replace(b'"P"', '"Pé ✓"'.encode()))
    cases = [
        ("missing", ["missing.tjp"], None, {1}), ("directory", ["adir.tjp"], None, {1}), ("empty", ["empty.tjp"], None, {1}),
        ("blank-stdin", ["-"], b"  \n\t\n", {1}), ("empty-stdin", [], b"", {1}),
        ("blank-file", ["blank.tjp"], None, {1}),       # nothing but white space is "empty" on either channel
        ("blank-unicode-file", ["blanku.tjp"], None, {1}), ("blank-unicode-stdin", ["-"], "\u00a0\u2028 \n\u0085".encode("utf-8"), {1}),
        ("missing-with-overlong-name", ["m" * 5000 + ".tjp"], None, {1}),
        ("closed-stdin", [], "<closed>", {1}),          # no file argument and no stdin at all: no input
        ("syntax", ["syntax.tjp"], None, {2}), ("syntax-stdin", ["-"], good.replace(b"{", b"{ {", 1), {2}), ("truncated", ["trunc.tjp"], None, {2}),
        ("invalid-report-name", ["badname.tjp"], None, {2}),
        ("not-decodable", ["latin1.tjp"], None, {1, 2}),
    ]
    for name, args, sin, want in cases:
        for fmt in ("json", "csv"):
            if sin == "<closed>":
                try:
                    r_ = subprocess.run([PLAN, "--quiet", "report"] + (["--csv"] if fmt == "csv" else []) + args, cwd=cwd, env=cli_env(tmp), capture_output=True,
                                        timeout=180, preexec_fn=lambda: os.close(0))
                    rc, so, se = r_.returncode, r_.stdout, r_.stderr
                except subprocess.TimeoutExpired:
                    rc, so, se = "timeout", b"", b""
            else:
                rc, so, se = run_plan(["--quiet", "report"] + (["--csv"] if fmt == "csv" else []) + args, cwd, tmp, sin)
            C["invocations"] += 1
            C["bad-input-invocations"] += 1
            sigs.add(common.dumps(("C19", "bad", name, fmt, rc)))
            rp = dict(property="C19", cls=name, args=args, stdin=None if sin is None else (sin if isinstance(sin, str) else sin[:200].decode("latin-1")), rc=rc, stdout=so[:300].decode("utf-8", "replace"),
                      stderr=se[-400:].decode("utf-8", "replace"))
            if rc not in want:
                add("bad-input-exit-status", dict(cls=name, fmt=fmt, rc=rc, want=sorted(want), stderr=se[-200:]), dict(rp, clause="bad-input-exit-status"))
            if so:
                add("stdout-not-empty-on-failure", dict(cls=name, fmt=fmt, rc=rc, stdout=so[:100]), dict(rp, clause="stdout-not-empty-on-failure"))
    # byte-exactness of report_id and file==stdin on CRLF / BOM / non-ASCII inputs
    for name in ("crlf.tjp", "bom.tjp", "utf8name.tjp"):
        data = open(os.path.join(cwd, name), "rb").read()
        digest = hashlib.sha256(data).hexdigest()
        r_file = run_plan(["--quiet", "report", name], cwd, tmp, None)
        r_in = run_plan(["--quiet", "report", "-"], cwd, tmp, data)
        C["invocations"] += 2
        sigs.add(common.dumps(("C19", "bytes", name, r_file[0], r_in[0])))
        rp = dict(property="C19", cls=name, data=data[:300].decode("latin-1"))
        if r_file[0] != r_in[0] or r_file[1] != r_in[1]:
            add("file-and-stdin-differ", dict(cls=name, file=(r_file[0], r_file[1][-120:]), stdin=(r_in[0], r_in[1][-120:])), dict(rp, clause="file-and-stdin-differ"))
        # the same bytes on stdin while the interpreter's text layer is told another codec: the report_id is the SHA-256 of
        # the BYTES that came in, whatever sys.stdin would decode them to
        r_enc = run_plan(["--quiet", "report", "-"], cwd, tmp, data, extra_env={"PYTHONIOENCODING": "latin-1"})
        C["invocations"] += 1
        for ch, r in (("file", r_file), ("stdin", r_in), ("stdin under PYTHONIOENCODING=latin-1", r_enc)):
            if r[0] == 0:
                ok, cols, rows, rid, prob = parse_stdout("json", r[1])
                if not ok:
                    add("stdout-not-exactly-the-report", dict(cls=name, problem=prob), dict(rp, clause="stdout-not-exactly-the-report"))
                elif rid != digest:
                    add("report_id-not-sha256-of-input", dict(cls=name, channel=ch, report_id=rid, sha256=digest), dict(rp, clause="report_id-not-sha256-of-input"))
            elif r[1]:
                add("stdout-not-empty-on-failure", dict(cls=name, rc=r[0]), dict(rp, clause="stdout-not-empty-on-failure"))
    left = os.listdir(tmp)
    if left:
        C["tmp-left-behind"] += 1
        notes.append("bad-input runs left in TMPDIR: %s (C20's business, reported there)" % left[:4])
    shutil.rmtree(root, ignore_errors=True)
    C["cases"] = C["invocations"]
    C["nontrivial"] = len(sigs)
    C["api-projects"] = len(api)
    return dict(C=C, sigs=sigs, viols=viols, vc=vc, samples=samples, notes=notes, status=status, nworkers=common.NCPU)


def _workroot():
    os.makedirs(common.WORK, exist_ok=True)
    return common.WORK


# =============================================================================================== C20

TRACE = "trace=openat,open,creat,mkdir,mkdirat,unlink,unlinkat,rmdir,rename,renameat,renameat2"
PAT = re.compile(r'^(\d+)\s+(\d+\.\d+)\s+(\w+)\((.*)\)\s+=\s+(-?\d+)')

SITECUSTOMIZE = r'''
import os
_fp = os.environ.get("VERIF_FAILPOINT")
if _fp:
    import importlib
    _mod, _attr, _nth, _exc = _fp.split(":")
    _m = importlib.import_module(_mod)
    _parts = _attr.split(".")
    _obj = _m
    for _a in _parts[:-1]:
        _obj = getattr(_obj, _a)
    _orig = getattr(_obj, _parts[-1])
    _cnt = [0]
    def _wrapper(*a, **k):
        _cnt[0] += 1
        if _cnt[0] == int(_nth):
            raise {"OSError": OSError(28, "No space left on device (injected)"), "KeyboardInterrupt": KeyboardInterrupt(),
                   "SystemExit": SystemExit(3), "MemoryError": MemoryError("injected"), "ValueError": ValueError("injected")}[_exc]
        return _orig(*a, **k)
    try:
        _wrapper.__name__ = _orig.__name__
    except Exception:
        pass
    setattr(_obj, _parts[-1], _wrapper)
'''

FAILPOINTS = [
    ("tempfile:mkstemp", (1, 2)), ("tempfile:mkdtemp", (1,)), ("json:loads", (1,)), ("json:dumps", (1,)), ("shutil:rmtree", (1,)),
    ("hashlib:sha256", (1,)), ("scriptplan.cli.main:run_scriptplan", (1,)), ("scriptplan.report.report:Report.generate", (1, 2)),
    ("scriptplan.report.report:Report._generate_json", (1,)), ("scriptplan.core.project:Project.schedule", (1,)),
    ("scriptplan.parser.tjp_parser:ProjectFileParser.parse", (1,)), ("os:fdopen", (1, 2)), ("pathlib:Path.unlink", (1,)),
]
EXCS = ["OSError", "SystemExit", "KeyboardInterrupt", "MemoryError", "ValueError"]


def snapshot(d):
    out = []
    for base, dirs, files in os.walk(d):
        for x in dirs + files:
            out.append(os.path.relpath(os.path.join(base, x), d))
    return sorted(out)


def parse_trace(path, idx, tmp, cwd):
    ev = []
    try:
        lines = open(path, errors="replace").read().splitlines()
    except OSError:
        return ev
    for line in lines:
        mm = PAT.match(line)
        if not mm:
            continue
        pid, ts, callname, args, ret = mm.groups()
        if int(ret) < 0:
            continue
        paths = re.findall(r'"((?:[^"\\]|\\.)*)"', args)
        if not paths:
            continue
        pth = paths[0]
        if not os.path.isabs(pth):
            pth = os.path.normpath(os.path.join(cwd, pth))
        creating = ("O_CREAT" in args) or callname in ("mkdir", "mkdirat", "creat")
        writing = creating or "O_WRONLY" in args or "O_RDWR" in args or "O_APPEND" in args or "O_TRUNC" in args
        removing = callname in ("unlink", "unlinkat", "rmdir")
        renaming = callname.startswith("rename")
        if creating or removing or renaming or writing:
            ev.append(dict(ts=float(ts), proc=idx, kind="C" if creating else ("R" if removing else ("M" if renaming else "W")), call=callname, path=pth,
                           dst=(paths[1] if renaming and len(paths) > 1 else None)))
    return ev


def drive_c20(tier, seed, cfg):
    tc = cfg[tier]
    rnd = random.Random(seed * 7919 + 20)
    C = collections.Counter()
    sigs = set()
    viols = []
    vc = collections.Counter()
    samples = []
    notes = []
    status = collections.Counter({"ok": 1})
    root = tempfile.mkdtemp(prefix="c20-", dir=_workroot())
    have_strace = shutil.which("strace") is not None
    if not have_strace:
        notes.append("strace not available: M-fs histories missing")

    def add(clause, detail, rp=None):
        vc[("C20", clause, ())] += 1
        if sum(1 for v in viols if v["clause"] == clause) < 4:
            viols.append(dict(prop="C20", clause=clause, detail=common.plain(detail), mechs=[], replay=dict(rp or {}, property="C20", clause=clause)))

    texts = make_texts(seed, 6, with_reports=True)
    inputs = {}
    for i, (m, base, full, nown) in enumerate(texts):
        inputs["in%d.tjp" % i] = full.encode()
    inputs["bad_syntax.tjp"] = texts[0][1].encode().replace(b"{", b"{ {", 1)
    inputs["bad_name.tjp"] = texts[1][1].encode() + b'taskreport bad "a:b" { formats json columns id }\n'
    inputs["empty.tjp"] = b""
    # own reports whose file name points out of the per-run output directory (whatever the run answers, nothing may stay behind)
    inputs["escape_rel.tjp"] = texts[2 % len(texts)][1].encode() + b'taskreport esc "../escaped_report" { formats json, csv columns id }\n'
    inputs["escape_deep.tjp"] = texts[3 % len(texts)][1].encode() + b'taskreport esc "sub/../../escaped_deep" { formats csv columns id, start }\n'
    # ... and one whose escaping name has directory levels that do not exist yet (seeded change C20-d created them before
    # the name was rejected)
    inputs["escape_newdir.tjp"] = texts[4 % len(texts)][1].encode() + b'taskreport esc "../leak_dir/deeper/escaped" { formats csv, json columns id }\n'
    failing = {"bad_syntax.tjp", "bad_name.tjp", "empty.tjp", "escape_rel.tjp", "escape_deep.tjp", "escape_newdir.tjp"}
    # ---- solitary reference runs
    sol = os.path.join(root, "solo")
    scwd, stmp = os.path.join(sol, "cwd"), os.path.join(sol, "tmp")
    os.makedirs(scwd)
    os.makedirs(stmp)
    for k, v in inputs.items():
        open(os.path.join(scwd, k), "wb").write(v)
    ref = {}

    def solo(key):
        name, fmt, ch = key
        args = ["--quiet", "report"] + (["--csv"] if fmt == "csv" else []) + ([name] if ch == "file" else ["-"])
        return key, run_plan(args, scwd, stmp, inputs[name] if ch == "stdin" else None)[:2]
    keys = [(nme, fmt, ch) for nme in inputs for fmt in ("json", "csv") for ch in ("file", "stdin")]
    before_cwd = snapshot(scwd)
    with cf.ThreadPoolExecutor(max_workers=1) as ex:   # strictly solitary
        pass
    for key in keys:
        k, v = solo(key)
        ref[k] = v
        C["solitary-runs"] += 1
        left = snapshot(stmp)
        if left:
            add("solitary-run-leaves-files", dict(input=key, left=left[:5]), dict(text=inputs[key[0]].decode("utf-8", "replace"), args=key))
            for x in left:
                p = os.path.join(stmp, x)
                shutil.rmtree(p, ignore_errors=True) if os.path.isdir(p) else (os.path.exists(p) and os.remove(p))
    if snapshot(scwd) != before_cwd:
        add("solitary-run-writes-into-cwd", dict(new=[x for x in snapshot(scwd) if x not in before_cwd][:5]))
    # ---- concurrent rounds under strace
    for rnd_i, N in enumerate(tc["rounds"]):
        rd = os.path.join(root, "round%d" % rnd_i)
        cwd, tmp, logs = os.path.join(rd, "cwd"), os.path.join(rd, "tmp"), os.path.join(rd, "logs")
        for d in (cwd, tmp, logs):
            os.makedirs(d)
        for k, v in inputs.items():
            open(os.path.join(cwd, k), "wb").write(v)
        before = snapshot(cwd)
        procs = []
        same_file = rnd.random() < 0.35
        for i in range(N):
            name = "in0.tjp" if same_file else rnd.choice(sorted(inputs))
            if rnd.random() < tc.get("failing_share", 0.2):
                name = rnd.choice(sorted(failing))
            fmt = rnd.choice(["json", "csv"])
            ch = rnd.choice(["file", "stdin"])
            delay = rnd.choice([0, 0, 500, 5000, 30000])
            args = ["--quiet", "report"] + (["--csv"] if fmt == "csv" else []) + ([name] if ch == "file" else ["-"])
            cmd = [PLAN] + args
            if have_strace:
                inj = ["-e", "inject=mkdir,mkdirat,unlink,unlinkat,rmdir,rename,renameat,renameat2:delay_enter=%d" % delay] if delay else []
                cmd = ["strace", "-f", "-ttt", "-qq", "-e", TRACE] + inj + ["-o", os.path.join(logs, "%d.st" % i)] + cmd
            stdin = subprocess.PIPE if ch == "stdin" else subprocess.DEVNULL
            p = subprocess.Popen(cmd, cwd=cwd, env=cli_env(tmp), stdin=stdin, stdout=subprocess.PIPE, stderr=subprocess.PIPE)
            procs.append(((name, fmt, ch), p))
        # feed stdin concurrently
        def finish(item):
            key, p = item
            try:
                out, err = p.communicate(inputs[key[0]] if key[2] == "stdin" else None, timeout=600)
                return key, p.returncode, out, err
            except subprocess.TimeoutExpired:
                p.kill()
                return key, "timeout", b"", b""
        with cf.ThreadPoolExecutor(max_workers=max(4, N)) as ex:
            results = list(ex.map(finish, procs))
        C["concurrent-processes"] += N
        C["rounds"] += 1
        for i, (key, rc, out, err) in enumerate(results):
            if rc == "timeout":
                status["timeout"] += 1
                continue
            if (rc, out) != ref[key]:
                add("concurrent-output-differs-from-solitary", dict(round=rnd_i, n=N, input=key, rc=rc, solitary_rc=ref[key][0], out=out[:120], solitary=ref[key][1][:120],
                                                                    stderr=err[-200:]), dict(text=inputs[key[0]].decode("utf-8", "replace"), args=key))
        left = snapshot(tmp)
        if left:
            add("files-left-in-tmpdir", dict(round=rnd_i, n=N, left=left[:6]), dict(note="concurrent round", inputs=[k for k, _, _, _ in results][:8]))
        after = snapshot(cwd)
        if after != before:
            add("files-created-in-cwd", dict(round=rnd_i, new=[x for x in after if x not in before][:6]))
        # ---- merge traces
        if have_strace:
            ev = []
            for i in range(N):
                ev.extend(parse_trace(os.path.join(logs, "%d.st" % i), i, tmp, cwd))
            ev.sort(key=lambda e: e["ts"])
            C["fs-events"] += len(ev)
            C["fs-creates"] += sum(1 for e in ev if e["kind"] == "C")
            C["fs-removes"] += sum(1 for e in ev if e["kind"] == "R")
            owners = collections.defaultdict(set)
            live = collections.defaultdict(set)
            for e in ev:
                pth = e["path"]
                inside_tmp = pth == tmp or pth.startswith(tmp + os.sep)
                inside_cwd = pth.startswith(cwd + os.sep)
                if e["kind"] in ("C", "W", "M") and not inside_tmp and pth not in ("/dev/null", "/dev/tty") and not pth.startswith("/proc/") and not pth.startswith("/dev/"):
                    add("write-outside-tmpdir", dict(round=rnd_i, proc=e["proc"], call=e["call"], path=pth, in_cwd=inside_cwd), dict(input=results[e["proc"]][0]))
                if inside_tmp and pth != tmp:
                    owners[pth].add(e["proc"])
                    if e["kind"] == "C":
                        live[e["proc"]].add(pth)
                    elif e["kind"] == "R":
                        live[e["proc"]].discard(pth)
                    elif e["kind"] == "M" and e["dst"]:
                        live[e["proc"]].discard(pth)
                        live[e["proc"]].add(e["dst"])
            shared = {p: s for p, s in owners.items() if len(s) > 1}
            if shared:
                pth, s = sorted(shared.items())[0]
                add("path-touched-by-two-processes", dict(round=rnd_i, path=pth, procs=sorted(s)), dict(inputs=[results[i][0] for i in sorted(s)]))
            for proc, paths in live.items():
                paths = {p for p in paths if os.path.lexists(p)}
                if paths:
                    add("created-but-not-removed", dict(round=rnd_i, proc=proc, paths=sorted(paths)[:4], input=results[proc][0]), dict(input=results[proc][0]))
            order = "".join("%d%s" % (e["proc"], e["kind"]) for e in ev if e["kind"] in ("C", "R"))
            sigs.add("interleaving:" + common.h12(order))
            sigs.add(common.dumps(("C20", "round", N, same_file, len(ev) // 20)))
            if len(samples) < 2:
                samples.append(common.plain(dict(round=rnd_i, processes=N, same_file=same_file,
                                                 merged_trace_head=[(round(e["ts"] - ev[0]["ts"], 4), e["proc"], e["kind"], e["call"], os.path.basename(e["path"])) for e in ev[:14]])))
        shutil.rmtree(rd, ignore_errors=True)
    # ---- failpoints and signals: every exit path leaves nothing behind and prints nothing on failure
    fd = os.path.join(root, "fp")
    cwd, tmp, site = os.path.join(fd, "cwd"), os.path.join(fd, "tmp"), os.path.join(fd, "site")
    for d in (cwd, tmp, site):
        os.makedirs(d)
    open(os.path.join(site, "sitecustomize.py"), "w").write(SITECUSTOMIZE)
    open(os.path.join(cwd, "in.tjp"), "wb").write(inputs["in0.tjp"])
    jobs = []
    for site_name, nths in FAILPOINTS:
        for nth in nths:
            for exc in EXCS:
                jobs.append((site_name, nth, exc))
    rnd.shuffle(jobs)
    jobs = jobs[: tc["failpoints"]]

    def run_fp(job):
        site_name, nth, exc = job
        mod, attr = site_name.split(":")
        d = tempfile.mkdtemp(prefix="fp-", dir=fd)
        t2, c2 = os.path.join(d, "tmp"), os.path.join(d, "cwd")
        os.makedirs(t2)
        os.makedirs(c2)
        open(os.path.join(c2, "in.tjp"), "wb").write(inputs["in0.tjp"])
        ch = "stdin" if (hash(job) % 2) else "file"
        env = {"PYTHONPATH": site + os.pathsep + common.REPO, "VERIF_FAILPOINT": "%s:%s:%d:%s" % (mod, attr, nth, exc)}
        args = ["--quiet", "report"] + (["in.tjp"] if ch == "file" else ["-"])
        rc, so, se = run_plan(args, c2, t2, inputs["in0.tjp"] if ch == "stdin" else None, extra_env=env)
        left_t, left_c = snapshot(t2), [x for x in snapshot(c2) if x != "in.tjp"]
        shutil.rmtree(d, ignore_errors=True)
        return job, ch, rc, so, se, left_t, left_c
    with cf.ThreadPoolExecutor(max_workers=common.NCPU) as ex:
        for job, ch, rc, so, se, left_t, left_c in ex.map(run_fp, jobs):
            C["failpoint-runs"] += 1
            fired = b"injected" in se or rc not in (0,) or True
            sigs.add(common.dumps(("C20", "failpoint", job[0], job[2], rc, bool(left_t))))
            rp = dict(failpoint="%s nth=%d raises %s" % job, channel=ch, rc=rc, stderr=se[-300:].decode("utf-8", "replace"))
            if left_t:
                add("failure-path-leaves-files-in-tmpdir", dict(failpoint=job, rc=rc, left=left_t[:5]), rp)
            if left_c:
                add("failure-path-leaves-files-in-cwd", dict(failpoint=job, rc=rc, left=left_c[:5]), rp)
    # SIGINT at random instants
    def run_sigint(k):
        d = tempfile.mkdtemp(prefix="sig-", dir=fd)
        t2, c2 = os.path.join(d, "tmp"), os.path.join(d, "cwd")
        os.makedirs(t2)
        os.makedirs(c2)
        open(os.path.join(c2, "in.tjp"), "wb").write(inputs["in0.tjp"])
        delay = 0.12 + (k * 0.618 % 1.0) * 0.5
        p = subprocess.Popen([PLAN, "--quiet", "report", "in.tjp"], cwd=c2, env=cli_env(t2), stdin=subprocess.DEVNULL, stdout=subprocess.PIPE, stderr=subprocess.PIPE)
        time.sleep(delay)
        sig = [signal.SIGINT, signal.SIGTERM, signal.SIGHUP][k % 3]     # ^C, 'timeout N plan report ...' / kill, a closed terminal
        if p.poll() is None:
            p.send_signal(sig)
        try:
            out, err = p.communicate(timeout=120)
        except subprocess.TimeoutExpired:
            p.kill()
            out, err = p.communicate()
        left_t = snapshot(t2)
        shutil.rmtree(d, ignore_errors=True)
        return k, delay, p.returncode, out, left_t, sig.name
    with cf.ThreadPoolExecutor(max_workers=8) as ex:
        for k, delay, rc, out, left_t, signame in ex.map(run_sigint, range(tc["sigints"])):
            C["sigint-runs"] += 1
            C["signal:" + signame] += 1
            if rc != 0:
                C["sigint-interrupted"] += 1
            sigs.add(common.dumps(("C20", "signal", signame, rc, bool(left_t), round(delay, 1))))
            if left_t:
                add("interrupt-leaves-files-in-tmpdir", dict(signal=signame, delay=delay, rc=rc, left=left_t[:5]), dict(signal=signame, delay=delay))
    # the file argument names something that is not a regular file: a FIFO, a device, /dev/stdin (accepted or refused - nothing
    # stays behind; seeded change C20-f spooled such input into a temporary file nobody owned)
    def run_oddinput(k):
        d = tempfile.mkdtemp(prefix="oi-", dir=fd)
        t2, c2 = os.path.join(d, "tmp"), os.path.join(d, "cwd")
        os.makedirs(t2)
        os.makedirs(c2)
        kind = ["fifo", "dev-null", "dev-stdin", "fifo-blank"][k % 4]
        data = inputs["in0.tjp"] if kind != "fifo-blank" else b"  \n"
        keep = None
        stdin_arg = subprocess.DEVNULL
        if kind.startswith("fifo"):
            path = os.path.join(c2, "pipe.tjp")
            os.mkfifo(path)
            keep = os.open(path, os.O_RDWR | os.O_NONBLOCK)      # the harness holds both ends: nobody blocks on open
            try:
                os.write(keep, data[:60000])
            except OSError:
                pass
            arg = "pipe.tjp"
        elif kind == "dev-null":
            arg = "/dev/null"
        else:
            arg = "/dev/stdin"
            stdin_arg = None
        try:
            p = subprocess.run([PLAN, "--quiet", "report"] + (["--csv"] if (k // 4) % 2 else []) + [arg], cwd=c2, env=cli_env(t2),
                               input=(data if stdin_arg is None else None), stdin=(None if stdin_arg is None else stdin_arg), capture_output=True, timeout=60)
            rc = p.returncode
        except subprocess.TimeoutExpired:
            rc = "timeout"
        finally:
            if keep is not None:
                os.close(keep)
        left_t = snapshot(t2)
        left_c = [x for x in snapshot(c2) if x != "pipe.tjp"]
        shutil.rmtree(d, ignore_errors=True)
        return k, kind, rc, left_t, left_c
    with cf.ThreadPoolExecutor(max_workers=8) as ex:
        for k, kind, rc, left_t, left_c in ex.map(run_oddinput, range(tc.get("oddinputs", 8))):
            C["odd-input-path-runs"] += 1
            sigs.add(common.dumps(("C20", "oddinput", kind, rc if isinstance(rc, str) else (0 if rc == 0 else "fail"), bool(left_t))))
            rp = dict(input_path_kind=kind, rc=rc)
            if rc == "timeout":
                notes.append("odd-input run timed out (inconclusive): %s" % rp)
                continue
            if left_t:
                add("odd-input-path-run-leaves-files-in-tmpdir", dict(kind=kind, rc=rc, left=left_t[:5]), rp)
            if left_c:
                add("odd-input-path-run-leaves-files-in-cwd", dict(kind=kind, rc=rc, left=left_c[:5]), rp)
    # --output FILE: a run that fails creates nothing in the working directory, a run that succeeds exactly FILE
    # (seeded change C20-e claimed the name before scheduling and never gave it back)
    def run_outfile(k):
        d = tempfile.mkdtemp(prefix="of-", dir=fd)
        t2, c2 = os.path.join(d, "tmp"), os.path.join(d, "cwd")
        os.makedirs(t2)
        os.makedirs(c2)
        name = sorted(inputs)[k % len(inputs)]
        data = inputs[name]
        open(os.path.join(c2, "in.tjp"), "wb").write(data)
        use_stdin = bool((k // len(inputs)) % 2)
        outname = ["out.json", "sub.csv", "report.out"][k % 3]
        args = [PLAN, "--quiet", "report"] + (["--csv"] if outname.endswith(".csv") else []) + ["-o", outname] + ([] if use_stdin else ["in.tjp"])
        try:
            p = subprocess.run(args, cwd=c2, env=cli_env(t2), input=(data if use_stdin else None), stdin=(None if use_stdin else subprocess.DEVNULL),
                               capture_output=True, timeout=180)
            rc = p.returncode
        except subprocess.TimeoutExpired:
            rc = "timeout"
        left_t = snapshot(t2)
        left_c = [x for x in snapshot(c2) if x != "in.tjp"]
        shutil.rmtree(d, ignore_errors=True)
        return k, name, use_stdin, outname, rc, left_t, left_c
    with cf.ThreadPoolExecutor(max_workers=8) as ex:
        for k, name, use_stdin, outname, rc, left_t, left_c in ex.map(run_outfile, range(tc.get("outfiles", 2 * len(inputs)))):
            C["output-file-runs"] += 1
            sigs.add(common.dumps(("C20", "outfile", name in failing, use_stdin, rc if isinstance(rc, str) else (0 if rc == 0 else "fail"), bool(left_c))))
            rp = dict(args="-o " + outname, input=name, stdin=use_stdin, rc=rc)
            if rc == "timeout":
                notes.append("--output run timed out (inconclusive): %s" % rp)
                continue
            if left_t:
                add("output-file-run-leaves-files-in-tmpdir", dict(rc=rc, left=left_t[:5]), rp)
            if rc == 0 and left_c != [outname]:
                add("successful-output-file-run-creates-other-files", dict(rc=rc, cwd=left_c[:5], want=[outname]), rp)
            if rc != 0 and left_c:
                add("failed-output-file-run-leaves-files-in-cwd", dict(rc=rc, left=left_c[:5]), rp)
    # --output FILE on a "full disk" (file size limit smaller than the report): the write fails half way - FILE must not stay
    # behind half written
    def run_fullout(k):
        import resource as _res
        d = tempfile.mkdtemp(prefix="fo-", dir=fd)
        t2, c2 = os.path.join(d, "tmp"), os.path.join(d, "cwd")
        os.makedirs(t2)
        os.makedirs(c2)
        small = ('project s "S" 2025-03-03 +2w {\n}\n' + "".join('task m%d "m%d" { milestone start 2025-03-%02d }\n' % (i, i, 3 + i % 10) for i in range(14))).encode()
        open(os.path.join(c2, "in.tjp"), "wb").write(small)
        outname = "out.json" if k % 2 == 0 else "out.csv"
        args = [PLAN, "--quiet", "report"] + (["--csv"] if outname.endswith(".csv") else []) + ["-o", outname, "in.tjp"]
        lim = 1024 if k % 2 == 0 else 300
        try:
            p = subprocess.run(args, cwd=c2, env=cli_env(t2), stdin=subprocess.DEVNULL, capture_output=True, timeout=120,
                               preexec_fn=lambda: _res.setrlimit(_res.RLIMIT_FSIZE, (lim, lim)))
            rc = p.returncode
        except subprocess.TimeoutExpired:
            rc = "timeout"
        left_t = snapshot(t2)
        left_c = [x for x in snapshot(c2) if x != "in.tjp"]
        sizes = {x: os.path.getsize(os.path.join(c2, x)) for x in left_c if os.path.isfile(os.path.join(c2, x))}
        shutil.rmtree(d, ignore_errors=True)
        return k, lim, outname, rc, left_t, left_c, sizes
    with cf.ThreadPoolExecutor(max_workers=4) as ex:
        for k, lim, outname, rc, left_t, left_c, sizes in ex.map(run_fullout, range(tc.get("fullouts", 4))):
            C["output-file-on-full-disk-runs"] += 1
            sigs.add(common.dumps(("C20", "fullout", lim, rc if isinstance(rc, str) else (0 if rc == 0 else "fail"), bool(left_c))))
            rp = dict(args="-o " + outname, file_size_limit=lim, rc=rc)
            if rc == "timeout":
                continue
            if left_t:
                add("full-disk-run-leaves-files-in-tmpdir", dict(rc=rc, left=left_t[:5]), rp)
            if rc != 0 and left_c:
                add("failed-output-file-run-leaves-files-in-cwd", dict(rc=rc, left=left_c[:5], sizes=sizes, limit=lim), rp)
    # the consumer of the report is gone or cannot take it: stdout is a pipe whose read end is closed / a full device
    # (seeded change C20-c restored the default SIGPIPE disposition: the process died with every artefact in place)
    def run_badout(k):
        d = tempfile.mkdtemp(prefix="out-", dir=fd)
        t2, c2 = os.path.join(d, "tmp"), os.path.join(d, "cwd")
        os.makedirs(t2)
        os.makedirs(c2)
        name = sorted(inputs)[k % len(inputs)]
        data = inputs[name]
        open(os.path.join(c2, "in.tjp"), "wb").write(data)
        kind = ["closed-pipe", "dev-full"][(k // 2) % 2]
        use_stdin = bool(k % 2)
        args = [PLAN, "--quiet", "report"] + (["--csv"] if (k // 4) % 2 else []) + ([] if use_stdin else ["in.tjp"])
        if kind == "closed-pipe":
            r_, w_ = os.pipe()
            os.close(r_)
        else:
            w_ = os.open("/dev/full", os.O_WRONLY)
        try:
            p = subprocess.run(args, cwd=c2, env=cli_env(t2), input=(data if use_stdin else None), stdin=(None if use_stdin else subprocess.DEVNULL),
                               stdout=w_, stderr=subprocess.PIPE, timeout=180)
            rc = p.returncode
        except subprocess.TimeoutExpired:
            rc = "timeout"
        finally:
            os.close(w_)
        left_t = snapshot(t2)
        left_c = [x for x in snapshot(c2) if x != "in.tjp"]
        shutil.rmtree(d, ignore_errors=True)
        return k, kind, name, use_stdin, rc, left_t, left_c
    with cf.ThreadPoolExecutor(max_workers=8) as ex:
        for k, kind, name, use_stdin, rc, left_t, left_c in ex.map(run_badout, range(tc.get("badouts", 24))):
            C["unwritable-stdout-runs"] += 1
            sigs.add(common.dumps(("C20", "badout", kind, use_stdin, rc if isinstance(rc, str) else (rc if rc >= 0 else "signal"), bool(left_t))))
            rp = dict(stdout=kind, input=name, stdin=use_stdin, rc=rc)
            if rc == "timeout":
                notes.append("unwritable-stdout run timed out (inconclusive): %s" % rp)
                continue
            if left_t:
                add("unwritable-stdout-leaves-files-in-tmpdir", dict(kind=kind, rc=rc, left=left_t[:5]), rp)
            if left_c:
                add("unwritable-stdout-leaves-files-in-cwd", dict(kind=kind, rc=rc, left=left_c[:5]), rp)
    shutil.rmtree(root, ignore_errors=True)
    C["cases"] = C["concurrent-processes"] + C["failpoint-runs"] + C["sigint-runs"] + C["solitary-runs"] + C["unwritable-stdout-runs"] + C["output-file-runs"] + C["odd-input-path-runs"] + C["output-file-on-full-disk-runs"]
    C["nontrivial"] = len(sigs)
    C["distinct-interleavings"] = sum(1 for s in sigs if s.startswith("interleaving:"))
    return dict(C=C, sigs=sigs, viols=viols, vc=vc, samples=samples, notes=notes, status=status, nworkers=common.NCPU)


def drive(prop, tier, seed, cfg):
    return drive_c19(tier, seed, cfg) if prop == "C19" else drive_c20(tier, seed, cfg)


def replay(prop, rp, acc):
    d = tempfile.mkdtemp(prefix="replay-", dir=_workroot())
    try:
        cwd, tmp = os.path.join(d, "cwd"), os.path.join(d, "tmp")
        os.makedirs(cwd)
        os.makedirs(tmp)
        text = rp.get("text")
        if isinstance(text, str):
            open(os.path.join(cwd, "in.tjp"), "w").write(text)
            rc, so, se = run_plan(["--quiet", "report"] + (["--csv"] if rp.get("fmt") == "csv" else []) + ["in.tjp"], cwd, tmp)
            print("rc=%s\nstdout=%s\nstderr=%s\nleft in TMPDIR: %s" % (rc, so[:1500].decode("utf-8", "replace"), se[-500:].decode("utf-8", "replace"), snapshot(tmp)))
        else:
            print("replay data:", common.dumps(rp)[:2000])
    finally:
        shutil.rmtree(d, ignore_errors=True)
