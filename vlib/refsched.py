"""Independent reference implementation of the documented ASAP rule (core dialect), slot level.
No code shared with the repo: calendar and limits come from vlib.indep, the rule is the README's:
tasks in order of priority (ties: declaration order) as soon as all predecessors are placed; each takes the
earliest slots at or after its bound in which all allocated resources are working, unbooked and within limits."""
from datetime import timedelta
from fractions import Fraction

from . import gen, indep


class NotCore(Exception):
    """the model leaves the core dialect (mid-slot bound, fractional slot count): no reference answer"""


def ref_schedule(m, horizon_end, preplace_pinned_milestones=True, cals=None):
    """returns (dict tid -> (start, end) | None, order of picks, last slot index used)"""
    res = m["res"]
    L = timedelta(minutes=res)
    start = m["start"]
    tm = gen.tmap(m)
    cals = cals or indep.calendars(m)
    nslots = int((horizon_end - start) / L) + 1
    leaves = [t for t in m["tasks"] if not t["container"]]
    leaves.sort(key=lambda t: (-indep.eff_priority(m, t, tm), t["decl"]))
    done = {}
    booked = {r["id"]: set() for r in m["resources"]}
    counters = {}
    picks = []
    kids = {}
    for t in m["tasks"]:
        if t["container"]:
            kids[t["path"]] = gen.children(m, t["path"])

    def status(path):
        t = tm[path]
        if not t["container"]:
            return done.get(path, "pending")
        sts = [status(c) for c in kids[path]]
        if any(s == "pending" for s in sts):
            return "pending"
        if any(s is None for s in sts):
            return None
        return (min(s[0] for s in sts), max(s[1] for s in sts))

    def inherited_start(t):
        p = t["path"]
        for k in range(len(p) - 1, 0, -1):
            if "start" in tm[p[:k]]:
                return tm[p[:k]]["start"]
        return None

    pending = list(leaves)
    if preplace_pinned_milestones:
        for t in list(pending):
            if "effort_min" not in t and "start" in t:
                done[t["path"]] = (t["start"], t["start"])
                pending.remove(t)
    max_slot = -1
    while pending:
        pick = None
        for t in pending:
            sts = [status(d["to"]) for d in gen.all_deps(m, t, tm)]
            if all(s != "pending" and s is not None for s in sts):
                pick = t
                break
        if pick is None:
            for t in pending:
                done[t["path"]] = None
            break
        t = pick
        pending.remove(t)
        picks.append(indep.tid(t["path"]))
        deps = gen.all_deps(m, t, tm)
        if "start" in t:
            bound = t["start"]
        else:
            bound = start
            ih = inherited_start(t)
            if ih and ih > bound:
                bound = ih
            for d in deps:
                s = status(d["to"])
                b = (s[0] if d.get("onstart") else s[1]) + timedelta(minutes=d.get("gap_min", 0))
                if b > bound:
                    bound = b
        if "effort_min" not in t:
            done[t["path"]] = (bound, bound)
            continue
        off = (bound - start)
        if off % L != timedelta(0):
            raise NotCore("bound mid-slot")
        idx = off // L
        need = Fraction(t["effort_min"]) / Fraction(res) / Fraction(str(gen.resource(m, t["alloc"][0])["eff"]))
        if need.denominator != 1:
            raise NotCore("fractional slots")
        need = int(need)
        got = []
        scopes = {rid: indep.limit_scopes(m, t, rid, tm) for rid in t["alloc"]}
        while len(got) < need and 0 <= idx < nslots:
            dt = start + idx * L
            ok = True
            tentative = {}
            for rid in t["alloc"]:
                if idx in booked[rid] or cals[rid].slot(dt) != "full":
                    ok = False
                    break
                for scope, kind, hrs in scopes[rid]:
                    key = (scope, kind, indep.limit_period(kind, dt))
                    cap = indep.limit_cap_slots(hrs, res)
                    if counters.get(key, 0) + tentative.get(key, 0) >= cap:
                        ok = False
                        break
                if not ok:
                    break
                for scope, kind, hrs in scopes[rid]:
                    key = (scope, kind, indep.limit_period(kind, dt))
                    tentative[key] = tentative.get(key, 0) + 1
            if ok:
                for rid in t["alloc"]:
                    booked[rid].add(idx)
                for key, n in tentative.items():
                    counters[key] = counters.get(key, 0) + n
                got.append(idx)
            idx += 1
        if len(got) < need:
            done[t["path"]] = None
        else:
            done[t["path"]] = (start + got[0] * L, start + (got[-1] + 1) * L)
            max_slot = max(max_slot, got[-1])
    out = {}
    for t in m["tasks"]:
        s = status(t["path"])
        out[indep.tid(t["path"])] = None if s in ("pending", None) else s
    return out, picks, max_slot, nslots
