"""Mechanism predicates over the monitors' event log, and the known-findings classifier.

A mechanism key names HOW the engine departed from its own arithmetic, as seen by M-ledger / M-limit / M-cursor
events of the tasks involved.  known_findings.json lists mechanisms with status 'known' (suppress + print
KNOWN-FINDING) or 'fixed' (suppress nothing).  The file is read-only at run time."""
import collections
import json
import os

from . import common

KF_PATH = os.path.join(common.VERIF, "known_findings.json")


def load_known():
    try:
        with open(KF_PATH) as f:
            return json.load(f)
    except FileNotFoundError:
        return []


def known_index():
    idx = collections.defaultdict(dict)
    for e in load_known():
        if e.get("status") == "known":
            idx[e["property"]][e["mechanism"]] = e
    return idx


class Mech:
    """Mechanism predicates for one case (events of one scenario)."""

    def __init__(self, m, obs, events, sc=0):
        self.m = m
        self.obs = obs
        self.L = m["res"] * 60
        self.books = collections.defaultdict(list)    # (rid, slot) -> book events
        self.rel = {}
        self.lim_dropped = []
        self.lim_events = []
        self.cursor_first = {}
        self.team = {".".join(t["path"]) for t in m["tasks"] if len(t.get("alloc", [])) > 1}
        for e in events:
            if e.get("sc", sc) != sc:
                continue
            k = e["k"]
            if k == "book":
                self.books[(e["r"].split(".")[-1], e["s"])].append(e)
            elif k == "release":
                if e["r"] is not None:
                    self.rel[(e["r"].split(".")[-1], e["s"], e["t"])] = e
            elif k == "limit-inc":
                self.lim_events.append(e)
                if e["dropped"]:
                    self.lim_dropped.append(e)
            elif k == "cursor-first":
                self.cursor_first[e["t"]] = e

    # -- ledger mechanisms -----------------------------------------------------------------------------
    def task(self, tid, rid):
        """mechanisms visible in the events of task tid (on resource rid, or on all resources it booked)."""
        ms = set()
        o = self.obs.T.get(tid)
        if o is not None and not o["sch"]:
            ms.add("failed-task-leftover")
        usage = self.obs.per_task.get(tid, {})
        rids = [rid] if rid else list(usage)
        if tid in self.team:
            ms.add("team-partial")
        for r in rids:
            sl = usage.get(r, {})
            if not sl:
                continue
            first, last = min(sl), max(sl)
            for s in {first, last}:
                for e in self.books.get((r, s), []):
                    if e["t"] != tid:
                        continue
                    head = e["before"]          # seconds of the slot already used when the grant was made
                    fwd = e.get("fwd")
                    if fwd is not False:
                        if s == last and head > 1e-6 and (r, s, tid) in self.rel:
                            ms.add("finish-slot-grant-not-at-slot-start")
                        if s == first and head > (e.get("offset") or 0.0) + 1e-6:
                            ms.add("first-grant-later-than-reported-start")
                        if s == first and e.get("first") is False and (e.get("offset") or 0.0) > 0:
                            ms.add("offset-stale-in-later-slot")
                    else:
                        if head > 1e-6:
                            ms.add("alap-grant-in-used-slot")
            if o is not None and o["fwd"] is False:
                if len(sl) == 1:
                    ms.add("alap-single-slot")
                if (r, first, tid) in self.rel:
                    ms.add("alap-partial-finish")
            cf = self.cursor_first.get(tid)
            if cf is not None and o is not None and o["fwd"] is not False and (cf.get("offset") or 0) > 0 and first > cf["s"]:
                ms.add("offset-stale-in-later-slot")
        return sorted(ms)

    def slot(self, rid, idx):
        ms = set()
        for tid, s in self.obs.led.get(rid, {}).get(idx, []):
            ms.update(self.task(tid, rid))
            e = self.rel.get((rid, idx, tid))
            if e is not None:
                # release arithmetic: total decreased by more than the task's own entry shrank
                if e["total_before"] is not None and e["mine_before"] is not None and \
                        (e["total_before"] - e["total_after"]) - (e["mine_before"] - e["mine_after"]) > 1e-6:
                    ms.add("release-after-partial-grant")
        return sorted(ms)

    # -- dependency mechanisms -------------------------------------------------------------------------
    def dep(self, t, d, obs):
        ms = set()
        own = d in t.get("deps", [])
        to_container = any(x["path"] == d["to"] and x["container"] for x in self.m["tasks"])
        o = obs.T.get(".".join(t["path"]))
        if o is not None and o["fwd"] is False:
            if d.get("gap_min"):
                ms.add("alap-gap-ignored")
            if (not own) or to_container:
                ms.add("alap-container-edge-ignored")
        return sorted(ms)

    # -- limit mechanisms ------------------------------------------------------------------------------
    def limit(self, scope, kind, period):
        ms = set()
        if self.lim_dropped:
            ms.add("limit-counter-missing")
        # two distinct periods mapped to one counter index of the same Limit object
        seen = collections.defaultdict(set)
        from datetime import timedelta
        from . import indep
        for e in self.lim_events:
            if e["c"] is None or e["dropped"]:
                continue
            dt = self.obs.start + timedelta(minutes=self.m["res"] * e["s"])
            seen[(e["lim"], e["c"])].add(indep.limit_period(e["name"], dt))
        if any(len(v) > 1 for v in seen.values()):
            ms.add("limit-counter-shared-between-periods")
        return sorted(ms)


def classify(prop, violations, viol_counts):
    """Split merged violation records into (new, known) using known_findings.json.
    A violation is known iff at least one of its mechanisms is listed with status 'known' for that property."""
    idx = known_index().get(prop, {})
    new, known = [], collections.Counter()
    for v in violations:
        hit = [mm for mm in v["mechs"] if mm in idx]
        if hit:
            for mm in hit[:1]:
                known[mm] += 0
            v["known"] = hit
        else:
            new.append(v)
    n_new = 0
    for (p, clause, mechs), n in viol_counts.items():
        hit = [mm for mm in mechs if mm in idx]
        if hit:
            known[hit[0]] += n
        else:
            n_new += n
    return new, known, n_new, idx
