"""Run worker jobs as separate subprocesses (never multiprocessing.Pool: it hangs when a child dies)."""
import os
import shutil
import subprocess
import sys
import time

from . import common


def worker_env(repo=None, hashseed="0", extra=None):
    env = dict(os.environ)
    repo = repo or common.REPO
    env["PYTHONPATH"] = os.pathsep.join([repo, common.VERIF] + ([env["PYTHONPATH"]] if env.get("PYTHONPATH") else []))
    env["PYTHONHASHSEED"] = str(hashseed)
    env["PYTHONDONTWRITEBYTECODE"] = "1"
    env["VERIF_REPO"] = repo
    env.pop("PYTHONSTARTUP", None)
    if extra:
        env.update(extra)
    return env


def run_jobs(jobs, nproc=None, hard_timeout=1800, tag="job"):
    """jobs: list of dicts. Returns list of (job, result-or-None, status) in job order.
    status: 'ok' | 'timeout' | 'crash:<rc>' ; stderr tail is kept in result['_stderr'] when a worker failed."""
    nproc = nproc or common.NCPU
    wd = os.path.join(common.WORK, "%s-%d-%d" % (tag, os.getpid(), int(time.time() * 1000) % 100000))
    os.makedirs(wd, exist_ok=True)
    pending = list(enumerate(jobs))
    running = []
    out = [None] * len(jobs)
    try:
        while pending or running:
            while pending and len(running) < nproc:
                i, job = pending.pop(0)
                jf = os.path.join(wd, "j%d.json" % i)
                rf = os.path.join(wd, "r%d.json" % i)
                ef = os.path.join(wd, "e%d.txt" % i)
                common.dump_file(job, jf)
                env = worker_env(job.get("repo"), job.get("hashseed", "0"), job.get("env"))
                p = subprocess.Popen([common.PY, "-X", "faulthandler", "-m", "vlib.worker", jf, rf], cwd=common.VERIF, env=env,
                                     stdout=subprocess.DEVNULL, stderr=open(ef, "wb"))
                running.append((i, job, p, rf, ef, time.time()))
            time.sleep(0.05)
            still = []
            for i, job, p, rf, ef, t0 in running:
                rc = p.poll()
                if rc is None:
                    if time.time() - t0 > job.get("hard_timeout", hard_timeout):
                        p.kill()
                        p.wait()
                        out[i] = (job, _partial(rf, ef), "timeout")
                    else:
                        still.append((i, job, p, rf, ef, t0))
                    continue
                if rc == 0 and os.path.exists(rf):
                    try:
                        out[i] = (job, common.load_file(rf), "ok")
                    except Exception as e:  # truncated file
                        out[i] = (job, {"_stderr": "unreadable result: %r" % e}, "crash:result")
                else:
                    out[i] = (job, _partial(rf, ef), "crash:%s" % rc)
            running = still
    finally:
        for _, _, p, _, _, _ in running:
            p.kill()
        shutil.rmtree(wd, ignore_errors=True)
    return out


def _partial(rf, ef):
    r = {}
    try:
        with open(ef, "rb") as f:
            r["_stderr"] = f.read()[-3000:].decode(errors="replace")
    except OSError:
        r["_stderr"] = ""
    return r
