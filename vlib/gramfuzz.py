"""Random derivations of the REAL grammar (scriptplan/parser/tjp.lark as loaded by the repo's own Lark instance).

Every produced text is grammatical by construction (modulo lexer priorities), so whatever happens after parsing is
the builder's and the scheduler's doing: C11 quantifies over "every project the parser accepts"."""
import random

_G = {}


def load():
    if _G:
        return _G
    from lark.lexer import PatternRE, PatternStr
    from scriptplan.parser.tjp_parser import ProjectFileParser
    P = ProjectFileParser().parser
    rules = {}
    for r in P.rules:
        rules.setdefault(r.origin.name, []).append([(s.name, s.is_term) for s in r.expansion])
    terms = {}
    for t in P.terminals:
        terms[t.name] = ("str", t.pattern.value) if isinstance(t.pattern, PatternStr) else ("re", t.pattern.value)
    # minimal derivation depth per nonterminal (fixpoint)
    depth = {}
    changed = True
    while changed:
        changed = False
        for nt, exps in rules.items():
            best = None
            for e in exps:
                d = 0
                ok = True
                for name, is_term in e:
                    if is_term:
                        continue
                    if name not in depth:
                        ok = False
                        break
                    d = max(d, depth[name])
                if ok:
                    best = d + 1 if best is None else min(best, d + 1)
            if best is not None and depth.get(nt) != best:
                if nt not in depth or best < depth[nt]:
                    depth[nt] = best
                    changed = True
    _G.update(rules=rules, terms=terms, depth=depth)
    return _G


TASK_IDS = ["a", "b", "c", "g", "m"]
RES_IDS = ["r", "q", "team"]
MISC_IDS = ["plan", "delayed", "sh", "acc", "rep", "x"]


def sample_terminal(rnd, name, kind, value, ctx):
    if kind == "str":
        return value
    if name == "ID":
        pool = ctx.get("ids") or (TASK_IDS + RES_IDS + MISC_IDS)
        return rnd.choice(pool)
    if name == "STRING":
        return rnd.choice(['"x"', '"Name"', '"a b"', '""', "'q'", '"%Y-%m-%d"', '"Etc/UTC"', '"Asia/Tokyo"'])
    if name == "NUMBER":
        return rnd.choice(["0", "1", "2", "8", "40", "0.5", "100", "500", "1000", "-1", "3.25"])
    if name == "DATE":
        return rnd.choice(["2025-03-03", "2025-03-05", "2025-03-10", "2025-04-01", "2025-02-20", "2026-01-01"])
    if name == "DATE_TIME":
        return rnd.choice(["2025-03-03-09:00", "2025-03-04-13:30", "2025-03-07-17:00", "2025-03-03-00:00"])
    if name == "TIME":
        return rnd.choice(["9:00", "09:00", "12:00", "17:00", "0:00", "23:59", "13:30", "24:00"])
    if name == "DAY_NAME":
        return rnd.choice(["mon", "tue", "wed", "thu", "fri", "sat", "sun"])
    if name == "DURATION_SPEC":
        return rnd.choice(["1w", "2w", "10d", "1m", "3d", "4h", "90min"])
    if name in ("EFFORT_UNIT", "DURATION_UNIT"):
        return rnd.choice(["h", "d", "min", "w", "m", "y"])
    if name == "SCHEDULING_MODE":
        return rnd.choice(["asap", "alap"])
    if name == "DEPENDS_REF":
        return rnd.choice(["a", "b", "c", "!a", "!b", "!!a", "g.a", "g", "m", "!c"])
    if name == "TASK_PATH":
        return rnd.choice(["g.a", "a", "g"])
    if name == "BOOLEAN":
        return rnd.choice(["true", "false", "yes", "no", "1", "0"])
    if name == "ALERT_VALUE":
        return rnd.choice(["yellow", "green", "red"])
    if name == "SORT_KEY":
        return rnd.choice(["id.up", "start.down", "plan.start.up", "tree.up"])
    if name == "PERIOD_EXPR":
        return rnd.choice(["2025-03-03 +2w", "2025-03-03", "%{2025-03-03}", "2025-03-10 +1m"])
    if name == "FILTER_EXPR":
        return rnd.choice(["@all", "@none", "~isleaf()", "~(plan.end <= 2025-03-10)", "~isleaf() & x"])
    if name == "RICH_TEXT_BLOCK":
        return "-8<-\n== head ==\ntext\n->8-"
    if name == "MACRO_REF":
        return rnd.choice(["${projectstart}", "${projectend}", "${undefined_macro}", "${now}"])
    if name in ("WS",):
        return " "
    if name in ("SH_COMMENT", "CPP_COMMENT", "C_COMMENT"):
        return ""
    return "x"


def derive(rnd, nt, budget, out, ctx, depth=0):
    G = load()
    exps = G["rules"].get(nt)
    if not exps:
        out.append("x")
        return
    mind = G["depth"]
    if depth > budget["maxdepth"] or budget["tokens"] <= 0:
        # choose an expansion of minimal depth to terminate
        best = min(exps, key=lambda e: max([mind.get(n, 99) for n, t in e if not t] or [0]))
        exp = best
    else:
        # star helper rules (__x_star_n) have a recursive and a terminating expansion: bias towards a few repetitions
        if nt.startswith("__") and "_star_" in nt and len(exps) >= 2:
            rec = [e for e in exps if any(n == nt for n, t in e)]
            base = [e for e in exps if e not in rec]
            exp = rnd.choice(rec) if (rec and rnd.random() < 0.55) else rnd.choice(base or exps)
        else:
            exp = rnd.choice(exps)
    for name, is_term in exp:
        if is_term:
            kind, value = G["terms"].get(name, ("str", name))
            out.append(sample_terminal(rnd, name, kind, value, ctx))
            budget["tokens"] -= 1
        else:
            derive(rnd, name, budget, out, ctx, depth + 1)


def generate(rnd, maxdepth=None, tokens=None):
    out = []
    budget = {"maxdepth": maxdepth or rnd.choice([8, 12, 16, 22]), "tokens": tokens or rnd.choice([60, 150, 400])}
    derive(rnd, "start", budget, out, {})
    # layout: newline after braces and before keywords that start statements keeps line-oriented comments harmless
    text = []
    for tok in out:
        if tok == "":
            continue
        text.append(tok)
        text.append("\n" if tok in ("{", "}") else " ")
    return "".join(text)


def embed(rnd, statement_nt, header=None):
    """a derivation of one statement-level nonterminal (task / resource / shift / report ...) placed into a small valid
    project, so that most derivations get past 'no project definition' and reach the builder and the scheduler"""
    out = []
    budget = {"maxdepth": rnd.choice([6, 10, 14]), "tokens": rnd.choice([40, 120, 250])}
    derive(rnd, statement_nt, budget, out, {})
    body = []
    for tok in out:
        if tok == "":
            continue
        body.append(tok)
        body.append("\n" if tok in ("{", "}") else " ")
    head = header or 'project p "P" 2025-03-03 +2w {\n  timezone "Etc/UTC"\n}\nresource r "r" {}\nresource q "q" {}\ntask a "a" { effort 4h allocate r }\ntask b "b" { effort 2h allocate q depends a }\n'
    return head + "".join(body) + "\n"


if __name__ == "__main__":
    import sys
    r = random.Random(int(sys.argv[1]) if len(sys.argv) > 1 else 0)
    print(generate(r))
