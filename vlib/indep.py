"""Independent models computed from the generator's MODEL only (never from the repo's parser or engine):
calendar, dependency edges, limit periods. stdlib zoneinfo is the trusted base for time zones."""
from datetime import datetime, timedelta, timezone
from zoneinfo import ZoneInfo

from . import gen

UTC = timezone.utc
MIN = timedelta(minutes=1)


def shift_of(m, r):
    """the shift the resource works: its own reference, else - if it has no inline hours - the nearest enclosing group's"""
    if "shift" in r:
        return r["shift"]
    if "inline" in r:
        return None
    gm = {g["id"]: g for g in m.get("groups", [])}
    for gid in gen.group_chain(m, r):
        if gm[gid].get("shift"):
            return gm[gid]["shift"]
        if gm[gid].get("inline"):
            return None          # the nearest declaration wins: inline hours on this group
    return None


def hours_spec(m, r):
    """the resource's hours (own inline hours, own shift, hours or a shift inherited from the nearest group that
    declares any); None = the project default applies"""
    if "inline" in r and "shift" not in r:
        return r["inline"]
    sid = shift_of(m, r)
    if sid is not None:
        return m["shifts"][sid]
    if "shift" not in r and "inline" not in r:
        gm = {g["id"]: g for g in m.get("groups", [])}
        for gid in gen.group_chain(m, r):
            if gm[gid].get("inline"):
                return gm[gid]["inline"]
            if gm[gid].get("shift"):
                break
    return None


def week_table(spec):
    """7x1440 booleans, union reading of cross-midnight intervals (wrap on the same day OR spill into the next)."""
    tab = [bytearray(1440) for _ in range(7)]
    if spec is None:
        for wd in range(5):
            for mn in range(9 * 60, 17 * 60):
                tab[wd][mn] = 1
        return tab
    for d0, d1, ivs in spec:
        for wd in gen.days_of(d0, d1):
            for s, e in ivs:
                if e <= s:
                    for mn in range(s, 1440):
                        tab[wd][mn] = 1
                    for mn in range(0, e):
                        tab[wd][mn] = 1          # wrap reading
                        tab[(wd + 1) % 7][mn] = 1  # spill reading
                else:
                    for mn in range(s, e):
                        tab[wd][mn] = 1
    return tab


def interval_of(s, e):
    return (s, s + timedelta(days=1)) if e is None else (s, e)


class Calendar:
    """working(resource, instant) for one resource of one model; instants are naive UTC."""

    def __init__(self, m, r):
        self.m = m
        self.r = r
        self.res = m["res"]
        own = hours_spec(m, r)
        # without hours of its own a resource follows the project default: the hours declared in the project header
        # if there are any, else Mon-Fri 9-17 - both on the project clock
        self.tab = week_table(own if own is not None else m.get("proj_hours"))
        self.zone = ZoneInfo(r["tz"]) if (r.get("tz") and own is not None) else None
        self.off = []
        sid = shift_of(m, r)
        if sid is not None:
            for s, e in m.get("shift_leaves", {}).get(sid, []):
                self.off.append(interval_of(s, e))
        gm = {g["id"]: g for g in m.get("groups", [])}
        for gid in gen.group_chain(m, r):
            for s, e in gm[gid].get("leaves", []) + gm[gid].get("vacs", []):
                self.off.append(interval_of(s, e))
        for s, e in m.get("vacations", []):
            self.off.append(interval_of(s, e))
        for typ, s, e in m.get("gleaves", []):
            self.off.append(interval_of(s, e))
        for s, e in r.get("leaves", []):
            self.off.append(interval_of(s, e))
        for s, e in r.get("vacs", []):
            self.off.append(interval_of(s, e))
        for s, mins in r.get("bookings", []):
            self.off.append((s, s + timedelta(minutes=mins)))
        self._cache = {}

    def _local(self, t):
        if self.zone is None:
            return t
        return t.replace(tzinfo=UTC).astimezone(self.zone)

    def minute(self, t):
        for a, b in self.off:
            if a <= t < b:
                return False
        lt = self._local(t)
        return bool(self.tab[lt.weekday()][lt.hour * 60 + lt.minute])

    def span(self, a, b):
        """number of working minutes in [a, b) (a, b on minute boundaries), and total minutes."""
        n = 0
        tot = 0
        t = a
        while t < b:
            tot += 1
            if self.minute(t):
                n += 1
            t += MIN
        return n, tot

    def slot(self, a):
        """'full' | 'none' | 'part' for the slot [a, a+res)."""
        k = self._cache.get(a)
        if k is not None:
            return k
        res = self.res
        b = a + timedelta(minutes=res)
        # leaves / vacations on the project clock
        covered = None
        for x, y in self.off:
            if x <= a and b <= y:
                covered = "none"
                break
            if x < b and a < y:
                covered = "part"
        if covered == "none":
            self._cache[a] = "none"
            return "none"
        la = self._local(a)
        lb = self._local(b - MIN)
        if covered is None and (self.zone is None or la.utcoffset() == lb.utcoffset()) and a.second == 0:
            wd = la.weekday()
            mn = la.hour * 60 + la.minute
            cnt = 0
            for k2 in range(res):
                mm = mn + k2
                cnt += self.tab[(wd + mm // 1440) % 7][mm % 1440]
            out = "full" if cnt == res else ("none" if cnt == 0 else "part")
        else:
            n, tot = self.span(a, b)
            out = "full" if n == tot else ("none" if n == 0 else "part")
        self._cache[a] = out
        return out

    def working_seconds(self, a, b):
        """working seconds in [a,b) at minute granularity (partial minutes counted pro rata on the minute's status)."""
        if b <= a:
            return 0.0
        tot = 0.0
        t = a.replace(second=0, microsecond=0)
        while t < b:
            lo = max(t, a)
            hi = min(t + MIN, b)
            if self.minute(t):
                tot += (hi - lo).total_seconds()
            t += MIN
        return tot


def calendars(m):
    return {r["id"]: Calendar(m, r) for r in m["resources"]}


def limit_period(kind, dt):
    if kind.startswith("daily"):
        return ("d", dt.year, dt.month, dt.day)
    iso = dt.isocalendar()
    return ("w", iso[0], iso[1])


def limit_cap_slots(hours, res_min):
    """limits count booked slots: value = floor(hours / slot)"""
    return int((hours * 60) // res_min)


def limit_scopes(m, t, rid, tm=None):
    """all limit scopes that apply when task t books resource rid: [(scope key, kind, hours)]"""
    tm = tm or gen.tmap(m)
    out = []
    r = gen.resource(m, rid)
    for k, v in (r.get("limits") or {}).items():
        out.append((("r", rid), k, v))
    gm = {g["id"]: g for g in m.get("groups", [])}
    for gid in gen.group_chain(m, r):
        for k, v in (gm[gid].get("limits") or {}).items():
            out.append((("g", gid), k, v))
    p = t["path"]
    for j in range(len(p), 0, -1):
        for k, v in (tm[p[:j]].get("limits") or {}).items():
            out.append((("t", p[:j]), k, v))
    return out


def eff_priority(m, t, tm=None):
    tm = tm or gen.tmap(m)
    p = t["path"]
    for k in range(len(p), 0, -1):
        if "priority" in tm[p[:k]]:
            return tm[p[:k]]["priority"]
    return 500


def tid(path):
    return ".".join(path)
