"""Shared paths, configuration and JSON helpers for the scriptplan runtime-monitoring checks."""
import hashlib
import json
import os
import sys
from datetime import date, datetime, timedelta

VERIF = os.path.dirname(os.path.dirname(os.path.abspath(__file__)))
REPO = os.environ.get("VERIF_REPO", "/repo")
PY = os.environ.get("VERIF_PY", "/venv/bin/python")
BUILD = os.path.join(VERIF, ".build")
WORK = os.path.join(VERIF, ".work")
REPLAYS = os.path.join(VERIF, "replays")
EVIDENCE = os.path.join(VERIF, "evidence")
NCPU = int(os.environ.get("VERIF_JOBS", str(os.cpu_count() or 4)))


def seed():
    try:
        return int(os.environ.get("VERIF_SEED", "0"))
    except ValueError:
        return 0


def tier(default="quick"):
    t = os.environ.get("VERIF_TIER", default)
    return t if t in ("quick", "thorough") else default


class Enc(json.JSONEncoder):
    def default(self, o):
        if isinstance(o, datetime):
            return {"$dt": o.strftime("%Y-%m-%dT%H:%M:%S")}
        if isinstance(o, date):
            return {"$d": o.isoformat()}
        if isinstance(o, timedelta):
            return {"$td": o.total_seconds()}
        if isinstance(o, (set, frozenset)):
            return sorted(o, key=repr)
        if isinstance(o, bytes):
            return {"$b": o.decode("latin-1")}
        return repr(o)


def _tuples(o):
    """tuples -> tagged lists so that they survive the round trip (paths are tuples)."""
    if isinstance(o, tuple):
        return {"$t": [_tuples(x) for x in o]}
    if isinstance(o, list):
        return [_tuples(x) for x in o]
    if isinstance(o, dict):
        return {(k if isinstance(k, str) else json.dumps(_tuples(k), cls=Enc)): _tuples(v) for k, v in o.items()}
    return o


def _hook(d):
    if len(d) == 1:
        if "$dt" in d:
            return datetime.strptime(d["$dt"], "%Y-%m-%dT%H:%M:%S")
        if "$d" in d:
            return date.fromisoformat(d["$d"])
        if "$td" in d:
            return timedelta(seconds=d["$td"])
        if "$t" in d:
            return tuple(d["$t"])
        if "$b" in d:
            return d["$b"].encode("latin-1")
    return d


def dumps(o, **kw):
    return json.dumps(_tuples(o), cls=Enc, **kw)


def loads(s):
    return json.loads(s, object_hook=_hook)


def dump_file(o, path, **kw):
    os.makedirs(os.path.dirname(path) or ".", exist_ok=True)
    tmp = path + ".tmp%d" % os.getpid()
    with open(tmp, "w") as f:
        f.write(dumps(o, **kw))
    os.replace(tmp, path)


def load_file(path):
    with open(path) as f:
        return loads(f.read())


def h12(s):
    if not isinstance(s, bytes):
        s = s.encode()
    return hashlib.sha1(s).hexdigest()[:12]


def plain(o, depth=0):
    """JSON-plain rendering for evidence samples (datetimes -> strings, tuples -> lists)."""
    if isinstance(o, datetime):
        return o.strftime("%Y-%m-%d %H:%M:%S")
    if isinstance(o, (date,)):
        return o.isoformat()
    if isinstance(o, timedelta):
        return o.total_seconds()
    if isinstance(o, dict):
        return {str(k if not isinstance(k, tuple) else ".".join(map(str, k))): plain(v, depth + 1) for k, v in o.items()}
    if isinstance(o, (list, tuple, set, frozenset)):
        return [plain(x, depth + 1) for x in o]
    if isinstance(o, (str, int, float, bool)) or o is None:
        return o
    return repr(o)


def repo_rev():
    import subprocess
    try:
        r = subprocess.run(["git", "-C", REPO, "rev-parse", "--short", "HEAD"], capture_output=True, text=True, timeout=20)
        d = subprocess.run(["git", "-C", REPO, "status", "--porcelain", "--untracked-files=no"], capture_output=True, text=True, timeout=20)
        return r.stdout.strip() + ("-dirty" if d.stdout.strip() else "")
    except Exception:
        return "unknown"
