"""Worker process: runs a batch of cases of one property module against the REAL scriptplan code."""
import collections
import importlib
import os
import random
import signal
import sys
import time
import traceback

from . import common


class CaseTimeout(BaseException):
    pass


def _alarm(signum, frame):
    raise CaseTimeout()


def case_seed(seed, widx, ci):
    return (seed * 1000003 + widx) * 1000003 + ci


class Acc:
    """Accumulates what a worker observed."""

    def __init__(self, job):
        self.job = job
        self.counters = collections.Counter()
        self.sigs = set()
        self.violations = []
        self.viol_counts = collections.Counter()
        self.samples = []
        self.notes = []
        self.max_viol = job.get("max_viol", 25)

    def count(self, k, n=1):
        self.counters[k] += n

    def sig(self, s):
        self.sigs.add(s if isinstance(s, str) else common.dumps(s, sort_keys=True))

    def sample(self, s, limit=2):
        if len(self.samples) < limit:
            self.samples.append(common.plain(s))

    def violation(self, prop, clause, detail, mechs=(), replay=None):
        key = (prop, clause, tuple(sorted(mechs)))
        self.viol_counts[key] += 1
        # keep full records for the first few of each key only
        kept = sum(1 for v in self.violations if (v["prop"], v["clause"], tuple(v["mechs"])) == key)
        if isinstance(replay, dict):
            replay.setdefault("observed", common.plain(detail))
            replay.setdefault("clause", clause)
        if kept < 3 and len(self.violations) < self.max_viol:
            self.violations.append({"prop": prop, "clause": clause, "detail": common.plain(detail), "mechs": sorted(mechs), "replay": replay})

    def result(self):
        return {"counters": dict(self.counters), "sigs": sorted(self.sigs), "violations": self.violations,
                "viol_counts": [[list(k[:2]) + [list(k[2])], v] for k, v in self.viol_counts.items()],
                "samples": self.samples, "notes": self.notes[:20]}


def generic_loop(mod, job, acc, t0=None):
    t0 = t0 or time.time()
    budget = job.get("budget_s", 1e9)
    ctimeout = job.get("case_timeout", 30)
    n = job["ncases"]
    for ci in range(n):
        if time.time() - t0 > budget:
            acc.count("truncated-by-budget", n - ci)
            break
        cs = case_seed(job["seed"], job["widx"], ci)
        rnd = random.Random(cs)
        signal.alarm(ctimeout)
        try:
            mod.run_case(rnd, cs, job, acc)
            acc.count("cases")
        except CaseTimeout:
            acc.count("case-timeout")
            acc.notes.append("case-timeout seed=%d" % cs)
            if hasattr(mod, "on_timeout"):
                mod.on_timeout(cs, job, acc)
        except Exception:
            acc.count("harness-exception")
            acc.notes.append("harness-exception seed=%d: %s" % (cs, traceback.format_exc()[-1200:]))
        finally:
            signal.alarm(0)


def main():
    # this file runs as __main__; property modules import it as vlib.worker. Make both names ONE module object,
    # otherwise `except CaseTimeout` in a property module would never match the exception raised by the alarm handler.
    sys.modules.setdefault("vlib.worker", sys.modules[__name__])
    job = common.load_file(sys.argv[1])
    from . import cybuild
    ext = job.get("ext", "pure")
    cybuild.install(ext, job.get("cydir"))
    mod = importlib.import_module(job["module"])
    acc = Acc(job)
    acc.count("ext:" + ext)
    signal.signal(signal.SIGALRM, _alarm)
    t0 = time.time()
    budget = job.get("budget_s", 1e9)
    ctimeout = job.get("case_timeout", 30)
    if hasattr(mod, "setup"):
        mod.setup(job, acc)
    if hasattr(mod, "worker"):
        mod.worker(job, acc)  # module drives itself
    else:
        generic_loop(mod, job, acc, t0)
    if hasattr(mod, "teardown"):
        mod.teardown(job, acc)
    acc.counters["wall_s"] = round(time.time() - t0, 2)
    common.dump_file(acc.result(), sys.argv[2])


if __name__ == "__main__":
    main()
