"""setup_cmd: build everything the checks need from files on disk only (offline)."""
import sys

from . import cybuild


def main():
    d, err = cybuild.build()
    print("cython (plain):", d or ("FAILED: %s" % err))
    d2, err2 = cybuild.build(sanitize=True)
    print("cython (asan+ubsan):", d2 or ("FAILED: %s" % err2))
    return 0


if __name__ == "__main__":
    sys.exit(main())
