"""Workload generator: project MODEL (plain dict) -> .tjp TEXT.

The model is the oracle's source of truth for what the input means; the repo's parser is never asked.
Paths are tuples of local ids; datetimes are naive UTC (project clock is always Etc/UTC).
"""
import random
from datetime import datetime, timedelta

DAYS = ["mon", "tue", "wed", "thu", "fri", "sat", "sun"]
MONTH_MIN = 30.4167 * 1440      # a booking of '+1m' blocks a fixed span of 30.4167 days (it does not follow the calendar month)
# zones whose UTC offsets (incl. DST jumps) are whole hours -> aligned at every resolution used
ALIGNED_ZONES = ["Asia/Tokyo", "America/New_York", "Europe/London", "Pacific/Kiritimati", "Europe/Berlin",
                 "America/Los_Angeles", "Australia/Sydney", "Pacific/Auckland", "America/Sao_Paulo", "Africa/Cairo",
                 "Pacific/Pago_Pago", "Asia/Dubai", "America/Anchorage"]
# zones with 30/45-minute offsets or 30-minute DST (aligned only at resolutions dividing the offset)
ODD_ZONES = ["Asia/Kolkata", "Asia/Kathmandu", "Australia/Lord_Howe", "Australia/Adelaide", "Pacific/Chatham",
             "America/St_Johns", "Asia/Tehran", "Asia/Yangon"]

SPECIAL_STARTS = [
    datetime(2020, 12, 21), datetime(2024, 2, 26), datetime(2026, 12, 21), datetime(2025, 3, 24), datetime(2025, 10, 20),
    datetime(2025, 3, 3), datetime(2025, 10, 27), datetime(2027, 1, 1), datetime(2021, 1, 1), datetime(2032, 12, 20),
    datetime(2028, 2, 21), datetime(2025, 12, 22), datetime(2024, 12, 23), datetime(2026, 3, 23), datetime(2026, 10, 19),
]


def fmt_dt(d):
    return d.strftime("%Y-%m-%d-%H:%M") if (d.hour or d.minute) else d.strftime("%Y-%m-%d")


def d_full(d):
    return d.strftime("%Y-%m-%d-%H:%M")


def hm(m):
    return "%02d:%02d" % (m // 60, m % 60)


def tmap(m):
    return {t["path"]: t for t in m["tasks"]}


def children(m, path):
    n = len(path)
    return [t["path"] for t in m["tasks"] if len(t["path"]) == n + 1 and t["path"][:n] == path]


def assign_decl(m):
    n = [0]
    tm = tmap(m)

    def emit(path):
        tm[path]["decl"] = n[0]
        n[0] += 1
        for c in children(m, path):
            emit(c)
    for t in m["tasks"]:
        if len(t["path"]) == 1:
            emit(t["path"])


def decl_order(m):
    return sorted(m["tasks"], key=lambda t: t["decl"])


def leaf_expand(m, path):
    return [t["path"] for t in m["tasks"] if not t["container"] and t["path"][:len(path)] == path]


def leaf_edges(m):
    """leaf-expanded edges: dict succ_leaf -> list of (pred_leaf, dep dict, via) ; via = path that declared it."""
    out = {}
    for t in m["tasks"]:
        for d in t.get("deps", []):
            for a in leaf_expand(m, t["path"]):
                for b in leaf_expand(m, d["to"]):
                    out.setdefault(a, []).append((b, d, t["path"]))
    return out


def acyclic(m):
    edges = {}
    for a, lst in leaf_edges(m).items():
        for b, d, via in lst:
            if a == b:
                return False
            edges.setdefault(a, set()).add(b)
    seen = {}

    def dfs(u):
        st = [(u, iter(edges.get(u, ())))]
        seen[u] = 1
        while st:
            node, it = st[-1]
            for v in it:
                if seen.get(v) == 1:
                    return False
                if v not in seen:
                    seen[v] = 1
                    st.append((v, iter(edges.get(v, ()))))
                    break
            else:
                seen[node] = 2
                st.pop()
        return True
    return all(dfs(u) for u in list(edges) if u not in seen)


def all_deps(m, t, tm=None):
    """own + inherited dependency declarations of task t (container targets not expanded)."""
    tm = tm or tmap(m)
    deps = list(t.get("deps", []))
    p = t["path"]
    for k in range(len(p) - 1, 0, -1):
        deps += tm[p[:k]].get("deps", [])
    return deps


def resource(m, rid):
    for r in m["resources"]:
        if r["id"] == rid:
            return r
    raise KeyError(rid)


def group_chain(m, r):
    """group ids enclosing resource r, innermost first"""
    out = []
    g = r.get("group")
    gm = {x["id"]: x for x in m.get("groups", [])}
    while g:
        out.append(g)
        g = gm[g].get("parent")
    return out


def pick_start(rnd, special=0.3):
    if rnd.random() < special:
        b = rnd.choice(SPECIAL_STARTS)
        return b + timedelta(days=rnd.randrange(0, 7))
    return datetime(2020, 1, 6) + timedelta(days=rnd.randrange(0, 365 * 13))


def gen_shift_specs(rnd, res, aligned=True, crossmid=True, monsun_crossmid=False):
    specs = []
    for _ in range(rnd.randint(1, 2)):
        d0 = rnd.randrange(7)
        d1 = rnd.randrange(d0, 7)
        if d0 != d1 and rnd.random() < 0.15:
            d0, d1 = d1, d0          # 'sat - mon': a range that wraps past Sunday (seeded change C02-c)
        ivs = []
        if crossmid and rnd.random() < 0.2:
            if monsun_crossmid:
                d0, d1 = 0, 6
            step = res if aligned else 1
            s = rnd.randrange(18 * 60, 23 * 60, step)
            e = rnd.randrange(step, 7 * 60, step)
            if aligned:
                s -= s % res
                e -= e % res
                e = max(e, res)
            ivs.append((s, e))
            if monsun_crossmid:
                specs = [(0, 6, ivs)]
                return specs
        else:
            cur = rnd.randrange(0, 10 * 60, res)
            for _ in range(rnd.randint(1, 3)):
                ln = rnd.randrange(res, 6 * 60, res)
                if not aligned:
                    cur += rnd.randrange(0, res)
                    ln += rnd.randrange(0, res)
                if cur + ln > 24 * 60 - 1:
                    break
                ivs.append((cur, cur + ln))
                cur += ln + rnd.randrange(res, 3 * 60, res)
        if ivs:
            specs.append((d0, d1, ivs))
    return specs


def gen(rnd, *, core=False, res_choices=(60, 60, 30, 15), subslot=True, alap=None, teams=True, limits=True, tz=True,
        leaves=True, nested=True, pins=True, ntasks=(2, 8), aligned=True, gaps=True, onstart=True, alts=False,
        crossmid=True, nres=(1, 4), special_start=0.3, weeks=None, days=None, tasklimits=False, odd_zones=False,
        effs=None, max_depth=3, overrun=False, milestones=0.1, single_day_leaves=True, groups=True, prios=0.4,
        contention=False, equal_team_eff=True, group_p=0.3, projhours=True):
    m = {}
    res = rnd.choice(res_choices)
    m["res"] = res
    base = pick_start(rnd, special_start)
    m["start"] = base
    if rnd.random() < 0.15:
        # project start with a time of day (whole hours keep every resolution's slot grid aligned with the calendars);
        # 'base' stays at midnight for leaves and the like (seeded change C05-c: daily periods counted from the project start)
        m["start"] = base + timedelta(hours=rnd.choice([8, 10, 12, 13, 15, 20]))
    if days is not None:
        m["days"] = rnd.randint(*days) if isinstance(days, tuple) else days
    else:
        m["weeks"] = rnd.randint(*(weeks or (2, 5)))
    m["alap"] = (rnd.random() < 0.3) if alap is None else alap
    span_days = m.get("days") or 7 * m["weeks"]
    # shifts
    shifts = {}
    for i in range(rnd.randint(0, 2)):
        specs = gen_shift_specs(rnd, res, aligned=aligned, crossmid=crossmid, monsun_crossmid=core)
        if specs:
            shifts["sh%d" % i] = specs
    m["shifts"] = shifts
    # resources
    resources = []
    n_res = rnd.randint(*nres)
    eff_choices = effs or ([1.0, 1.0, 0.5, 2.0] if (core or not subslot) else [1.0, 1.0, 1.0, 0.5, 2.0, 0.8, 1.25])
    for i in range(n_res):
        r = {"id": "r%d" % i, "eff": rnd.choice(eff_choices)}
        k = rnd.random()
        if shifts and k < 0.5:
            r["shift"] = rnd.choice(sorted(shifts))
        elif shifts and k < 0.7:
            r["inline"] = shifts[rnd.choice(sorted(shifts))]
        if tz and rnd.random() < 0.3:
            zs = list(ALIGNED_ZONES)
            if odd_zones:
                zs += ODD_ZONES
            r["tz"] = rnd.choice(zs)
            if "shift" not in r and "inline" not in r:
                # default hours are evaluated on the project clock: not claimed, give the resource hours
                r["inline"] = gen_shift_specs(rnd, res, aligned=aligned, crossmid=False) or [(0, 4, [(9 * 60, 17 * 60)])]
        if leaves and rnd.random() < 0.4:
            lv = []
            for _ in range(rnd.randint(1, 3)):
                s = base + timedelta(days=rnd.randrange(-2, max(2, min(14, span_days))))   # may begin before the project start
                if single_day_leaves and rnd.random() < 0.35:
                    lv.append((s, None))
                else:
                    lv.append((s, s + timedelta(days=rnd.randint(1, 3))))
            r["leaves"] = lv
        if leaves and rnd.random() < 0.15:
            # resource-level 'vacation' lines (single day and ranges)
            vs = []
            for _ in range(rnd.randint(1, 2)):
                s = base + timedelta(days=rnd.randrange(0, max(2, min(14, span_days))))
                vs.append((s, None) if rnd.random() < 0.5 else (s, s + timedelta(days=rnd.randint(1, 2))))
            r["vacs"] = vs
        if leaves and rnd.random() < 0.15:
            # blocking bookings: 'booking "B" <instant> +<duration>' (calendar time, slot aligned)
            bs = []
            for _ in range(rnd.randint(1, 2)):
                s = base + timedelta(days=rnd.randrange(0, max(2, min(14, span_days))), minutes=rnd.randrange(0, 24 * 60, res))
                bs.append((s, rnd.choice([res, 2 * res, 6 * 60, 24 * 60, 3 * res, 2 * 24 * 60, 3 * 24 * 60, 7 * 24 * 60, MONTH_MIN])))   # 7 days are written '+1w', a month '+1m'
            r["bookings"] = bs
        if limits and rnd.random() < 0.3:
            r["limits"] = {rnd.choice(["dailymax", "weeklymax"]): rnd.choice([1, 2, 3, 4, 6, 1.5, 2.5, 7.5, 3.75])}   # fractions: seeded change C05-d rounded them
            if rnd.random() < 0.25:
                r["limits"] = {"dailymax": rnd.choice([1, 2, 3, 4]), "weeklymax": rnd.choice([4, 6, 8, 12])}      # both kinds on one resource
            elif rnd.random() < 0.08:
                r["limits"] = {rnd.choice(["dailymax", "weeklymax"]): rnd.choice([0.25, 0.5]) * res / 60.0}       # less than one slot: nothing may be booked
        resources.append(r)
    m["resources"] = resources
    m["groups"] = []
    if groups and n_res >= 2 and rnd.random() < group_p:
        g = {"id": "grp", "parent": None}
        if limits and rnd.random() < 0.5:
            g["limits"] = {rnd.choice(["dailymax", "weeklymax"]): rnd.choice([2, 4, 6, 8, 2.5, 7.5])}
        m["groups"].append(g)
        members = resources if rnd.random() < 0.6 else resources[:max(1, n_res - 1)]
        for r in members:
            r["group"] = "grp"
        if rnd.random() < 0.45:
            # a second level: an outer group around 'grp' (and possibly around resources that are not in 'grp'),
            # optionally a sibling sub-group; limits on both levels so that the outer one can be the binding one
            org = {"id": "org", "parent": None}
            if limits and rnd.random() < 0.7:
                org["limits"] = {rnd.choice(["dailymax", "weeklymax"]): rnd.choice([2, 3, 4, 6])}
            m["groups"].insert(0, org)
            g["parent"] = "org"
            if limits and "limits" not in g and rnd.random() < 0.5:
                g["limits"] = {rnd.choice(["dailymax", "weeklymax"]): rnd.choice([2, 4, 6, 8])}
            outside = [r for r in resources if not r.get("group")]
            if outside and rnd.random() < 0.6:
                sib = {"id": "sib", "parent": "org"}
                if limits and rnd.random() < 0.6:
                    sib["limits"] = {rnd.choice(["dailymax", "weeklymax"]): rnd.choice([2, 4, 6])}
                m["groups"].append(sib)
                for r in outside:
                    r["group"] = "sib" if rnd.random() < 0.7 else "org"
    if leaves and not core:
        # absences declared one level up: on the shift a resource names, on a resource group (its members inherit them
        # even when they declare absences of their own)
        for sid in sorted(shifts):
            if rnd.random() < 0.2:
                s = base + timedelta(days=rnd.randrange(0, max(2, min(14, span_days))))
                m.setdefault("shift_leaves", {})[sid] = [(s, None) if rnd.random() < 0.5 else (s, s + timedelta(days=rnd.randint(1, 3)))]
        for g in m["groups"]:
            if shifts and rnd.random() < 0.25:
                g["shift"] = rnd.choice(sorted(shifts))      # members without hours of their own work this shift
            elif rnd.random() < 0.12:
                # hours written on the group itself; for its members the NEAREST declaration counts (a shift named by an
                # outer group does not beat hours given by an inner one)
                g["inline"] = gen_shift_specs(rnd, res, aligned=aligned, crossmid=False) or [(0, 4, [(8 * 60, 12 * 60)])]
            if rnd.random() < 0.3:
                s = base + timedelta(days=rnd.randrange(0, max(2, min(14, span_days))))
                g["leaves" if rnd.random() < 0.5 else "vacs"] = [(s, None) if rnd.random() < 0.5 else (s, s + timedelta(days=rnd.randint(1, 2)))]
    if projhours and not core and rnd.random() < 0.15:
        # working hours declared in the project header: the default for every resource without hours of its own
        m["proj_hours"] = gen_shift_specs(rnd, res, aligned=aligned, crossmid=False) or [(0, 4, [(8 * 60, 12 * 60), (13 * 60, 17 * 60)])]
    if leaves and rnd.random() < 0.3:
        vs = []
        for _ in range(rnd.randint(1, 2)):
            s = base + timedelta(days=rnd.randrange(0, max(2, min(14, span_days))))
            vs.append((s, None) if rnd.random() < 0.6 else (s, s + timedelta(days=rnd.randint(1, 3))))
        m["vacations"] = vs
    if leaves and rnd.random() < 0.2:
        # project-level 'leaves <type> "name" a - b' (whole days, half days with slot-aligned instants, single day)
        gl = []
        for _ in range(rnd.randint(1, 2)):
            s = base + timedelta(days=rnd.randrange(0, max(2, min(14, span_days))))
            k = rnd.random()
            if k < 0.4:
                a = s + timedelta(minutes=rnd.randrange(0, 18 * 60, res))
                ln = rnd.choice([res, 4 * 60, 3 * res, 8 * 60])
                if not aligned and rnd.random() < 0.5:
                    ln += rnd.choice([res // 2, res // 3 or 1])     # the leave ends inside a slot: that slot is partly on leave
                gl.append((rnd.choice(["holiday", "special"]), a, a + timedelta(minutes=ln)))
            elif k < 0.7:
                gl.append(("holiday", s, None))
            else:
                gl.append((rnd.choice(["holiday", "annual"]), s, s + timedelta(days=rnd.randint(1, 3))))
        m["gleaves"] = gl
    # tasks
    tasks = []
    n = rnd.randint(*ntasks)
    containers = [()]
    for i in range(n):
        parent = rnd.choice(containers) if nested else ()
        if nested and rnd.random() < 0.25 and len(parent) < max_depth:
            cid = "g%d" % i
            c = {"path": parent + (cid,), "container": True}
            if rnd.random() < 0.3 and tasks:
                cands = [t for t in tasks if t["path"] != c["path"][:len(t["path"])]]
                if cands:
                    d = {"to": rnd.choice(cands)["path"]}
                    if gaps and rnd.random() < 0.3:
                        d["gap_min"] = rnd.choice([res, 2 * res, 24 * 60])
                    c["deps"] = [d]
            if pins and not m["alap"] and rnd.random() < 0.15:
                c["start"] = m["start"] + timedelta(days=rnd.randrange(0, 7), minutes=rnd.randrange(0, 24 * 60, res))
            if tasklimits and rnd.random() < 0.3:
                c["limits"] = {rnd.choice(["dailymax", "weeklymax"]): rnd.choice([1, 2, 3, 4])}
            if rnd.random() < 0.12:
                # a date on the container itself: a deadline for ALAP children, an annotation in forward mode - the
                # container's reported end must still be the latest child end (seeded change C10-b)
                c["end"] = base + timedelta(days=span_days - rnd.randrange(0, min(5, span_days)), minutes=rnd.choice([0, 0, 17 * 60]))
            if rnd.random() < prios * 0.3:
                c["priority"] = rnd.choice([1, 100, 300, 500, 700, 1000])
            tasks.append(c)
            containers.append(c["path"])
            parent = c["path"]
        t = {"path": parent + ("t%d" % i,), "container": False}
        if rnd.random() < milestones:
            t["milestone"] = True
        else:
            slots = rnd.randint(1, 12)
            mins = slots * res
            if subslot and rnd.random() < 0.5:
                mins = rnd.randrange(5, 8 * 60, 5) if res >= 5 else rnd.randrange(1, 120)
            if overrun:
                mins *= rnd.choice([1, 3, 10])
            t["effort_min"] = mins
            pool = resources[:1] if (contention and rnd.random() < 0.7) else resources
            k = 2 if (teams and len(pool) >= 2 and rnd.random() < 0.2) else 1
            t["alloc"] = [r["id"] for r in rnd.sample(pool, k)]
            if not core and rnd.random() < 0.08:
                # the same resource named twice in one allocation (or in two allocate statements): it still is ONE resource
                # (seeded change C01-f released the unused tail of the last slot once per MENTION)
                t["alloc_dup"] = rnd.choice(["tail", "split", "head"])
            if alts and n_res >= 2 and k == 1 and rnd.random() < 0.3:
                others = [r["id"] for r in resources if r["id"] not in t["alloc"]]
                t["alt"] = rnd.sample(others, 1 if rnd.random() < 0.7 else min(2, len(others)))
            if tasklimits and rnd.random() < 0.2:
                t["limits"] = {rnd.choice(["dailymax", "weeklymax"]): rnd.choice([1, 2, 3, 4, 1.5, 3.5])}
        if rnd.random() < prios:
            t["priority"] = rnd.choice([1, 100, 300, 500, 700, 1000])
        cands = [x for x in tasks if x["path"] != t["path"][:len(x["path"])]]  # not own ancestors
        if cands and rnd.random() < 0.6:
            deps = []
            for x in rnd.sample(cands, min(len(cands), rnd.randint(1, 2))):
                d = {"to": x["path"]}
                if gaps and rnd.random() < 0.3:
                    d["gap_min"] = rnd.choice([res, 2 * res, 24 * 60, 90, 45, 48 * 60]) if subslot else rnd.choice([res, 2 * res, 24 * 60, 7 * 24 * 60])
                if onstart and rnd.random() < 0.15 and not m["alap"]:
                    d["onstart"] = True
                    if rnd.random() < 0.3:
                        deps.append({"to": x["path"]})     # the same predecessor ALSO finish-to-start: two different constraints on one pair
                deps.append(d)
            t["deps"] = deps
            if pins and not m["alap"] and t.get("milestone") and rnd.random() < 0.25:
                # forward milestone with an END date and dependencies: the dependencies decide (an end is no pin in forward mode)
                t["end"] = m["start"] + timedelta(days=rnd.randrange(0, 7), minutes=rnd.randrange(0, 24 * 60, res))
        elif pins and not m["alap"] and rnd.random() < 0.2:
            t["start"] = m["start"] + timedelta(days=rnd.randrange(0, 7), minutes=rnd.randrange(0, 24 * 60, res))
            if rnd.random() < 0.15:
                t["start"] = m["start"]        # pinned exactly at the project start (also written ${projectstart})
            elif subslot and not core and res >= 10 and rnd.random() < 0.15:
                t["start"] += timedelta(minutes=rnd.choice([res // 2, res // 3, 7 if res > 7 else 1]))   # a pin INSIDE a slot
            if t.get("milestone") and not core and rnd.random() < 0.15:
                t["end"] = t["start"] + timedelta(days=rnd.randint(1, 3))      # an explicit milestone pinned to TWO different dates: contradictory
        tasks.append(t)
    m["tasks"] = tasks
    # containers that ended up childless become leaves (milestones): the parser treats them so
    for t in tasks:
        if t["container"] and not children(m, t["path"]):
            t["container"] = False
            t["milestone"] = True
            t.pop("limits", None)
    # an effort written on a container is inherited by the leaves below it that give none themselves (only containers whose
    # children are all effort leaves qualify: a milestone would inherit the effort too)
    if not core:
        for c in tasks:
            if c["container"] and rnd.random() < 0.12:
                kids = [tm_ for tm_ in tasks if tm_["path"][:-1] == c["path"]]
                if kids and all((not k["container"]) and "effort_min" in k for k in kids):
                    c["c_effort_min"] = kids[0]["effort_min"]
                    for k in kids:
                        if k is kids[0] or rnd.random() < 0.5:
                            k["effort_min"] = c["c_effort_min"]
                            k["effort_inherited"] = True
    if m["alap"]:
        succ = set()
        for a, lst in leaf_edges(m).items():
            for b, d, via in lst:
                succ.add(b)
        for t in tasks:
            if not t["container"] and t["path"] not in succ and rnd.random() < 0.7:
                t["end"] = base + timedelta(days=span_days - rnd.randrange(1, min(7, span_days)), minutes=rnd.randrange(0, 24 * 60, res))
    if core:
        make_core(rnd, m)
    elif equal_team_eff:
        equalize_teams(m)
    assign_decl(m)
    m["acyclic"] = acyclic(m)
    # declaration order is a spelling choice: 20 % of the models that use shifts declare them BELOW the resources
    m["shifts_late"] = bool(shifts) and rnd.random() < 0.2
    return m


def make_ties(rnd, m):
    """in place: resources with identical calendars, the first one away for the whole window, and effort tasks that
    allocate it with SEVERAL alternatives - the alternatives tie, so whatever breaks the tie becomes visible
    (seeded changes C12-c and C15-c: hash order / alphabetical order of the ids instead of the written order)"""
    rs = m["resources"]
    if len(rs) < 3:
        return False
    for r in rs:
        for k in ("shift", "inline", "tz", "leaves", "vacs", "bookings", "limits"):
            r.pop(k, None)
        r["eff"] = 1.0
    span = m.get("days") or 7 * m["weeks"]
    rs[0]["leaves"] = [(m["start"].replace(hour=0, minute=0) - timedelta(days=1), m["start"] + timedelta(days=span + 400))]
    others = [r["id"] for r in rs[1:]]
    n = 0
    for t in m["tasks"]:
        if "effort_min" not in t:
            continue
        t.pop("limits", None)
        if n < 3 and rnd.random() < 0.6:
            t["alloc"] = [rs[0]["id"]]
            t["alt"] = rnd.sample(others, rnd.randint(2, len(others)))
            n += 1
        else:
            t["alloc"] = [rnd.choice(others)]
            t.pop("alt", None)
    return n > 0


def equalize_teams(m, alts=False):
    """members of one team (and, if alts, primary+alternatives) get one efficiency: unequal teams have no unique
    effort semantics (DESIGN 3.2). Union-find so that chains of shared members end in a consistent assignment."""
    parent = {r["id"]: r["id"] for r in m["resources"]}

    def find(x):
        while parent[x] != x:
            parent[x] = parent[parent[x]]
            x = parent[x]
        return x
    for t in m["tasks"]:
        if "effort_min" in t:
            ids = list(t["alloc"]) + (list(t.get("alt", [])) if alts else [])
            for rid in ids[1:]:
                a, b = find(ids[0]), find(rid)
                if a != b:
                    parent[max(a, b)] = min(a, b)
    for r in m["resources"]:
        r["eff"] = resource(m, find(r["id"]))["eff"]


def make_core(rnd, m):
    """core dialect: efforts are whole slots at the (common) efficiency of the allocation, gaps slot multiples,
    ample horizon."""
    res = m["res"]
    equalize_teams(m, alts=True)
    for t in m["tasks"]:
        if "effort_min" in t:
            e = resource(m, t["alloc"][0])["eff"]
            slots = rnd.randint(1, 12)
            v = slots * res * e
            if abs(v - round(v)) > 1e-9:
                v = slots * res * 2 * e
            t["effort_min"] = int(round(v))
        for d in t.get("deps", []):
            if "gap_min" in d:
                d["gap_min"] = rnd.choice([res, 2 * res, 24 * 60, 3 * res])
    if "weeks" in m:
        m["weeks"] = rnd.randint(10, 14)


# ------------------------------------------------------------------------------------------------ rendering

def relref(frm, to, rnd=None):
    """absolute ref (dotted) or, if rnd given, a random valid relative form."""
    if rnd is None:
        return ".".join(to)
    opts = [".".join(to)]
    for k in range(1, len(frm) + 1):
        base = frm[:len(frm) - k]
        if to[:len(base)] == base and len(to) > len(base):
            opts.append("!" * k + ".".join(to[len(base):]))
    return rnd.choice(opts)


def days_of(d0, d1):
    """weekday numbers of the range d0 - d1; d0 > d1 wraps past Sunday"""
    return list(range(d0, d1 + 1)) if d0 <= d1 else list(range(d0, 7)) + list(range(0, d1 + 1))


def spec_text(specs):
    out = []
    for d0, d1, ivs in specs:
        days = DAYS[d0] if d0 == d1 else "%s - %s" % (DAYS[d0], DAYS[d1])
        if d0 != d1 and (d0 * 7 + d1 + len(ivs)) % 5 == 0:
            days = ", ".join(DAYS[d] for d in days_of(d0, d1))      # the same days spelled as a list
        out.append("workinghours %s " % days + ", ".join("%s - %s" % (hm(s), hm(e)) for s, e in ivs))
    return out


def gap_text(mins):
    """gapduration is calendar time: whole days are written as 'd', whole weeks as 'w', whole hours as 'h'"""
    if mins and mins % 10080 == 0:
        return "%dw" % (mins // 10080)
    if mins and mins % 1440 == 0:
        return "%dd" % (mins // 1440)
    if mins and mins % 60 == 0:
        return "%dh" % (mins // 60)
    return "%dmin" % mins


def limit_value_text(k, v):
    """the same amount in the units the grammar knows: hours, or minutes for every third value (spelling choice)"""
    mins = v * 60
    if mins == int(mins) and (int(mins) // 30 + len(k)) % 3 == 0:
        return "%dmin" % int(mins)
    return "%sh" % v


def limits_text(lim):
    items = list(lim.items())
    if len(items) >= 2 and int(items[0][1] * 4 + items[1][1] * 4) % 2 == 0:
        # two limits written as two blocks: they add up (the second block must not replace the first)
        return " ".join("limits { %s %s }" % (k, limit_value_text(k, v)) for k, v in items)
    return "limits { " + " ".join("%s %s" % (k, limit_value_text(k, v)) for k, v in items) + " }"


def render(m, refrnd=None, precrnd=None, extra_header=None, scenarios=None, trailer=""):
    """refrnd: random relative/absolute reference spellings; precrnd: move plain deps to 'precedes' on the other task."""
    L = []
    prec = {}
    skip = set()
    dup = set()
    if precrnd is not None:
        for t in m["tasks"]:
            for i, d in enumerate(t.get("deps", [])):
                if not d.get("onstart") and precrnd.random() < 0.5:
                    prec.setdefault(d["to"], []).append((t["path"], d))
                    skip.add((t["path"], i))
                    if precrnd.random() < 0.2:
                        dup.add((t["path"], i))     # the same edge ALSO as a bare 'depends' on the other side: the gap of the precedes entry still counts
    if "days" in m:
        dur = "+%dd" % m["days"]
    else:
        dur = "+%dw" % m["weeks"]
    L.append('project %s "P" %s %s {' % (m.get("pid", "p"), fmt_dt(m["start"]), dur))
    L.append('  timezone "Etc/UTC"')
    if m["res"] != 60:
        L.append("  timingresolution %dmin" % m["res"])
    if m["alap"]:
        L.append("  scheduling alap")
    for sp in spec_text(m.get("proj_hours") or []):
        L.append("  " + sp)
    if m.get("timeformat"):
        L.append('  timeformat "%s"' % m["timeformat"])
    for line in (extra_header or []):
        L.append("  " + line)
    if scenarios:
        L.extend("  " + s for s in scenarios)
    L.append("}")
    for s, e in m.get("vacations", []):
        L.append('vacation "V" %s' % (fmt_dt(s) if e is None else "%s - %s" % (fmt_dt(s), fmt_dt(e))))
    for typ, s, e in m.get("gleaves", []):
        L.append('leaves %s "GL" %s' % (typ, d_full(s) if e is None else "%s - %s" % (d_full(s), d_full(e))))
    def emit_shifts():
        for sid, specs in m["shifts"].items():
            L.append('shift %s "%s" {' % (sid, sid))
            for s in spec_text(specs):
                L.append("  " + s)
            for s, e in m.get("shift_leaves", {}).get(sid, []):
                L.append("  leaves holiday %s" % (fmt_dt(s) if e is None else "%s - %s" % (fmt_dt(s), fmt_dt(e))))
            L.append("}")
    if not m.get("shifts_late"):
        emit_shifts()

    def emit_res(r, ind):
        L.append('%sresource %s "%s" {' % (ind, r["id"], r["id"]))
        if r["eff"] != 1.0:
            L.append("%s  efficiency %s" % (ind, r["eff"]))
        if "shift" in r:
            L.append("%s  workinghours %s" % (ind, r["shift"]))
        if "inline" in r:
            for s in spec_text(r["inline"]):
                L.append(ind + "  " + s)
        if r.get("tz"):
            L.append('%s  timezone "%s"' % (ind, r["tz"]))
        for s, e in r.get("leaves", []):
            L.append("%s  leaves annual %s" % (ind, fmt_dt(s) if e is None else "%s - %s" % (fmt_dt(s), fmt_dt(e))))
        for s, e in r.get("vacs", []):
            L.append("%s  vacation %s" % (ind, fmt_dt(s) if e is None else "%s - %s" % (fmt_dt(s), fmt_dt(e))))
        for s, mins in r.get("bookings", []):
            # every unit the grammar knows: whole calendar days as 'd', whole hours as 'h', else minutes (seeded change C02-b)
            dur = "1m" if mins == MONTH_MIN else ("%dw" % (mins // 10080)) if mins % 10080 == 0 else ("%dd" % (mins // 1440)) if mins % 1440 == 0 else (("%dh" % (mins // 60)) if mins % 60 == 0 else ("%dmin" % mins))
            L.append('%s  booking "B" %s +%s' % (ind, d_full(s), dur))
        if r.get("limits"):
            L.append("%s  %s" % (ind, limits_text(r["limits"])))
        if r.get("rate") is not None:
            L.append("%s  rate %s" % (ind, r["rate"]))
        L.append(ind + "}")

    def emit_group(g, ind):
        L.append('%sresource %s "%s" {' % (ind, g["id"], g["id"]))
        if g.get("shift"):
            L.append("%s  workinghours %s" % (ind, g["shift"]))
        for sp in spec_text(g.get("inline") or []):
            L.append(ind + "  " + sp)
        if g.get("limits"):
            L.append("%s  %s" % (ind, limits_text(g["limits"])))
        for s, e in g.get("leaves", []):
            L.append("%s  leaves annual %s" % (ind, fmt_dt(s) if e is None else "%s - %s" % (fmt_dt(s), fmt_dt(e))))
        for s, e in g.get("vacs", []):
            L.append("%s  vacation %s" % (ind, fmt_dt(s) if e is None else "%s - %s" % (fmt_dt(s), fmt_dt(e))))
        for sub in m.get("groups", []):
            if sub.get("parent") == g["id"]:
                emit_group(sub, ind + "  ")
        for r in m["resources"]:
            if r.get("group") == g["id"]:
                emit_res(r, ind + "  ")
        L.append(ind + "}")
    # declaration order: groups first (with their members), then free resources, keeping r-index order inside
    for g in m.get("groups", []):
        if not g.get("parent"):
            emit_group(g, "")
    for r in m["resources"]:
        if not r.get("group"):
            emit_res(r, "")
    if m.get("shifts_late"):
        emit_shifts()
    tm = tmap(m)

    def emit(path, depth):
        t = tm[path]
        i = "  " * depth
        L.append('%stask %s "%s" {' % (i, path[-1], t.get("name", path[-1])))
        if t.get("milestone"):
            L.append(i + "  milestone")
        if t["container"] and t.get("alloc"):
            L.append("%s  allocate %s" % (i, ", ".join(t["alloc"])))   # inherited by children without an allocation of their own
        # scenario-specific values: written behind the plain ones, or (sc_first) in front of them - the order of the
        # lines inside a task body carries no meaning
        sc_lines = []
        for sc, mins in t.get("sc_effort", {}).items():
            sc_lines.append("%s  %s:effort %dmin" % (i, sc, mins))
        for sc, v in t.get("sc_start", {}).items():
            sc_lines.append("%s  %s:start %s" % (i, sc, fmt_dt(v)))
        for sc, v in t.get("sc_end", {}).items():
            sc_lines.append("%s  %s:end %s" % (i, sc, fmt_dt(v)))
        if t.get("sc_first"):
            L.extend(sc_lines)
        if "c_effort_min" in t:
            L.append("%s  effort %dmin" % (i, t["c_effort_min"]))      # on a container: inherited by leaves without an effort of their own
        if "effort_min" in t:
            if not t.get("effort_inherited") and not t.get("effort_late"):
                L.append("%s  effort %dmin" % (i, t["effort_min"]))
            ids_ = list(t["alloc"])
            dupmode = t.get("alloc_dup") if not t.get("alt") else None
            if dupmode == "tail":
                ids_ = ids_ + [ids_[0]]
            elif dupmode == "head":
                ids_ = [ids_[-1]] + ids_
            a = ", ".join(ids_)
            if t.get("alt"):
                a += " { alternative " + ", ".join(t["alt"]) + " }"
            L.append("%s  allocate %s" % (i, a))
            if dupmode == "split":
                L.append("%s  allocate %s" % (i, t["alloc"][0]))      # a second statement naming a member again
        if "priority" in t:
            L.append("%s  priority %d" % (i, t["priority"]))
        if t.get("task_alap"):
            L.append("%s  scheduling alap" % i)      # task-level ALAP inside an ASAP project (only used by metamorphic checks)
        if "start" in t:
            L.append("%s  start %s" % (i, fmt_dt(t["start"])))
        if "end" in t:
            L.append("%s  end %s" % (i, fmt_dt(t["end"])))
        if not t.get("sc_first"):
            L.extend(sc_lines)
        if t.get("limits"):
            L.append("%s  %s" % (i, limits_text(t["limits"])))
        if t.get("deps"):
            ds = []
            for k, d in enumerate(t["deps"]):
                if (path, k) in skip and (path, k) not in dup:
                    continue
                s = relref(path, d["to"], refrnd)
                opts = []
                if (path, k) in dup:
                    ds.append(s)
                    continue
                if "gap_min" in d:
                    opts.append("gapduration %s" % gap_text(d["gap_min"]))
                if d.get("onstart"):
                    opts.append("onstart")
                if opts:
                    s += " { " + " ".join(opts) + " }"
                ds.append(s)
            if len(ds) >= 2 and (len(ds) + sum(len(x) for x in ds)) % 3 == 0:
                # several 'depends' statements in one body add up (seeded change C04-e kept the last one only)
                for x in ds:
                    L.append("%s  depends %s" % (i, x))
            elif ds:
                L.append("%s  depends %s" % (i, ", ".join(ds)))
        if path in prec:
            ps = []
            for q, d in prec[path]:
                s = relref(path, q, refrnd)
                if "gap_min" in d:
                    s += " { gapduration %s }" % gap_text(d["gap_min"])
                ps.append(s)
            L.append("%s  precedes %s" % (i, ", ".join(ps)))
        for c in children(m, path):
            emit(c, depth + 1)
        L.append(i + "}")
    for t in m["tasks"]:
        if len(t["path"]) == 1:
            emit(t["path"], 0)
    return "\n".join(L) + "\n" + trailer


if __name__ == "__main__":
    import sys
    rnd = random.Random(int(sys.argv[1]) if len(sys.argv) > 1 else 0)
    print(render(gen(rnd)))
