"""Evidence writer (schema: /root/.vp/EVIDENCE.schema.json). Rewritten on every run from measured counters only."""
import os

from . import common


def write(prop, tier, seed, cfg, C, sigs, samples, notes, known, n_new, wall, inconclusive, vc, extra=None):
    cov = {
        "evaluations": int(C.get("cases", 0)),
        "distinct_nontrivial": len(sigs),
        "rule": cfg.get("rule", ""),
        "samples": samples[:4] if samples else [],
        "monitor_evaluations": {k.split(":", 1)[1]: int(v) for k, v in C.items() if k.startswith("monitor:")},
        "events_observed": {k.split(":", 1)[1]: int(v) for k, v in C.items() if k.startswith("ev:")},
        "counters": {k: (int(v) if float(v).is_integer() else round(v, 2)) for k, v in sorted(C.items())
                     if not k.startswith("monitor:") and not k.startswith("ev:")},
        "known_finding_hits": {k: int(v) for k, v in known.items()},
        "new_violations": int(n_new),
        "violation_classes": [{"clause": k[1], "mechanisms": list(k[2]), "count": int(n)} for k, n in sorted(vc.items(), key=lambda kv: -kv[1])[:20]],
        "verdict": "violated" if n_new else ("inconclusive" if inconclusive else "held on what was observed"),
        "inconclusive_reasons": inconclusive,
        "notes": [n[:400] for n in notes[:8]],
        "repo_rev": common.repo_rev(),
        "exhaustive": bool((extra or {}).get("exhaustive", False)),
    }
    if extra:
        for k, v in extra.items():
            if k not in cov:
                cov[k] = v
    ev = {
        "property_id": prop,
        "tier": tier,
        "seed": int(seed),
        "level": cfg["level"],
        "coverage": cov,
        "assumptions": cfg.get("assumptions", []),
        "wall_s": round(wall, 2),
        "violations": int(n_new),
    }
    # evidence/ describes /repo only; a run against another tree (VERIF_REPO=...) writes to a scratch directory
    scratch = os.path.realpath(common.REPO) != "/repo" or os.environ.get("VERIF_EVIDENCE_SCRATCH") == "1"   # seeded-mutant runs patch /repo itself
    outdir = os.path.join(common.WORK, "evidence-other-tree") if scratch else common.EVIDENCE
    os.makedirs(outdir, exist_ok=True)
    common.dump_file(common.plain(ev), os.path.join(outdir, prop + ".json"), indent=1)
