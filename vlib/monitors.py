"""Runtime monitors wrapped around the REAL scriptplan methods inside a worker process.

Wrappers only read engine state, record an event, and return the real result object.  Every monitor counts its
evaluations; a check whose deciding monitor saw zero events reports 'inconclusive', never 'held'.
Online assertions are diagnostic (they name the first operation that departs from the ledger's own arithmetic);
the verdict on a property is taken by that property's oracle.
"""
import collections

EV = []            # event dicts of the current case
COUNT = collections.Counter()   # evaluations per monitor over the whole worker life
ONLINE = []        # online assertion failures of the current case: (name, detail)
CUR = {}           # id(TaskScenario) -> cursor state of the current case (monitor-side; the engine object is not touched)
_installed = set()


def reset():
    EV.clear()
    ONLINE.clear()
    CUR.clear()


def _slotlen(rs):
    return rs.project.attributes.get("scheduleGranularity", 3600)


def install_ledger():
    """M-ledger: ResourceScenario.book / TaskScenario.bookResource / _calculatePreciseEndTimeAndRelease."""
    if "ledger" in _installed:
        return
    _installed.add("ledger")
    from scriptplan.core import resource_scenario as rsm, task_scenario as tsm

    real_book = rsm.ResourceScenario.book

    def book(self, sb_idx, task, force=False):
        L = _slotlen(self)
        before = self.slotSecondsUsed.get(sb_idx, 0.0)
        n_before = len(self.slotTaskUsage.get(sb_idx, ()))
        r = real_book(self, sb_idx, task, force)
        after = self.slotSecondsUsed.get(sb_idx, 0.0)
        COUNT["book"] += 1
        if r > 0 or after != before:
            granted = after - before
            ev = dict(k="book", sc=self.scenarioIdx, r=self.property.fullId, s=sb_idx, t=task.fullId, before=before, granted=granted,
                      L=L, credit=r, leaf=bool(self.property.leaf()))
            EV.append(ev)
            # post-conditions at method exit
            if granted > L - before + 1e-6:
                ONLINE.append(("book-granted-more-than-free", ev))
            if after > L + 1e-6:
                ONLINE.append(("book-slot-overfull", ev))
            if not self.property.leaf():
                ONLINE.append(("book-on-group", ev))
            eff = self.property.get("efficiency", self.scenarioIdx) or 1.0
            if abs(r - granted / 3600.0 * eff) > 1e-9:
                ONLINE.append(("book-credit-not-granted-times-efficiency", ev))
            if len(self.slotTaskUsage.get(sb_idx, ())) != n_before + 1:
                ONLINE.append(("book-ledger-entry-count", ev))
        return r
    rsm.ResourceScenario.book = book

    real_br = tsm.TaskScenario.bookResource

    def bookResource(self, resource):
        rs = resource.data[self.scenarioIdx] if resource.data else None
        before = rs.slotSecondsUsed.get(self.currentSlotIdx, 0.0) if rs is not None else None
        n_ev = len(EV)
        r = real_br(self, resource)
        COUNT["bookResource"] += 1
        if rs is not None:
            off = getattr(self, "slotStartOffset", 0.0) or 0.0
            fwd = self.property.get("forward", self.scenarioIdx)
            for e in EV[n_ev:]:
                if e["k"] == "book" and e["t"] == self.property.fullId:
                    e["pre_reserve"] = before
                    e["offset"] = off
                    e["fwd"] = fwd
                    e["first"] = (self.doneEffort == 0)
            after = rs.slotSecondsUsed.get(self.currentSlotIdx, 0.0)
            if r == 0 and after != before:
                EV.append(dict(k="reserve-only", sc=self.scenarioIdx, r=resource.fullId, s=self.currentSlotIdx, t=self.property.fullId,
                               before=before, after=after))
        return r
    tsm.TaskScenario.bookResource = bookResource

    real_rel = tsm.TaskScenario._calculatePreciseEndTimeAndRelease

    def rel(self, required_effort, effort_before_slot, forward):
        res = getattr(self, "_lastBookedResource", None)
        rs = res.data[self.scenarioIdx] if (res is not None and res.data) else None
        tb = rs.slotSecondsUsed.get(self.currentSlotIdx) if rs is not None else None
        mine_b = None
        if rs is not None:
            mine_b = sum(s for t, s in rs.slotTaskUsage.get(self.currentSlotIdx, ()) if t is self.property)
        out = real_rel(self, required_effort, effort_before_slot, forward)
        COUNT["release"] += 1
        ta = rs.slotSecondsUsed.get(self.currentSlotIdx) if rs is not None else None
        mine_a = None
        if rs is not None:
            mine_a = sum(s for t, s in rs.slotTaskUsage.get(self.currentSlotIdx, ()) if t is self.property)
        ev = dict(k="release", sc=self.scenarioIdx, r=res.fullId if res is not None else None, s=self.currentSlotIdx, t=self.property.fullId,
                  total_before=tb, total_after=ta, mine_before=mine_b, mine_after=mine_a, kept=out[1], fwd=forward, end=out[0])
        EV.append(ev)
        if tb is not None and ta is not None and mine_b is not None:
            # forward: what the task gives back becomes free again. backward: the work sits at the END of the slot, the
            # unused head in front of it cannot be offered to anybody, so the slot total legitimately stays put.
            if forward and abs((tb - ta) - (mine_b - mine_a)) > 1e-6:
                ONLINE.append(("release-total-vs-own-entry", ev))
            if (not forward) and abs(tb - ta) > 1e-6:
                ONLINE.append(("backward-release-changed-slot-total", ev))
            if mine_a > mine_b + 1e-6:
                ONLINE.append(("release-kept-more-than-granted", ev))
            if ta < -1e-6:
                ONLINE.append(("release-negative-total", ev))
        return out
    tsm.TaskScenario._calculatePreciseEndTimeAndRelease = rel


def install_cursor():
    """M-cursor: TaskScenario.scheduleSlot (cursor moves, doneEffort monotone) and TaskScenario.schedule."""
    if "cursor" in _installed:
        return
    _installed.add("cursor")
    from scriptplan.core import task_scenario as tsm
    real_slot = tsm.TaskScenario.scheduleSlot

    def scheduleSlot(self):
        COUNT["scheduleSlot"] += 1
        cur = self.currentSlotIdx
        de = getattr(self, "doneEffort", 0.0)
        st = CUR.get(id(self))
        if st is None or st[0] != id(self.project) or st[3] != self.scenarioIdx or de == 0.0 and st[5] > 0:
            CUR[id(self)] = st = [id(self.project), cur, 0, self.scenarioIdx, cur, de]
            EV.append(dict(k="cursor-first", sc=self.scenarioIdx, t=self.property.fullId, s=cur,
                           fwd=self.property.get("forward", self.scenarioIdx), offset=getattr(self, "slotStartOffset", 0.0)))
        else:
            fwd = self.property.get("forward", self.scenarioIdx)
            if cur - st[4] != (1 if fwd else -1):
                ONLINE.append(("cursor-step-not-unit", dict(t=self.property.fullId, prev=st[4], cur=cur, fwd=fwd)))
            if de < st[5] - 1e-12:
                ONLINE.append(("done-effort-decreased", dict(t=self.property.fullId, prev=st[5], cur=de)))
            st[4] = cur
            st[5] = de
        st[2] += 1
        r = real_slot(self)
        if not r:
            EV.append(dict(k="cursor-last", sc=self.scenarioIdx, t=self.property.fullId, s=self.currentSlotIdx, steps=st[2]))
        return r
    tsm.TaskScenario.scheduleSlot = scheduleSlot

    real_sched = tsm.TaskScenario.schedule

    def schedule(self):
        COUNT["ts.schedule"] += 1
        r = real_sched(self)
        st = CUR.get(id(self))
        EV.append(dict(k="task-done", sc=self.scenarioIdx, t=self.property.fullId, ok=bool(r), steps=st[2] if st else 0,
                       runaway=bool(getattr(self, "isRunAway", False))))
        return r
    tsm.TaskScenario.schedule = schedule


def install_pick():
    """M-pick: Task.schedule calls made by the main loop, loop iterations, container roll-ups."""
    if "pick" in _installed:
        return
    _installed.add("pick")
    from scriptplan.core import task as tm, project as pm
    real = tm.Task.schedule

    def schedule(self, scIdx):
        COUNT["pick"] += 1
        EV.append(dict(k="pick", sc=scIdx, t=self.fullId, prio=self.get("priority", scIdx), seq=self.get("seqno")))
        return real(self, scIdx)
    tm.Task.schedule = schedule
    real_ready = tm.Task.readyForScheduling

    def ready(self, scIdx):
        COUNT["ready"] += 1
        return real_ready(self, scIdx)
    tm.Task.readyForScheduling = ready
    real_ss = pm.Project.scheduleScenario

    def scheduleScenario(self, scIdx):
        COUNT["scheduleScenario"] += 1
        EV.append(dict(k="scenario-begin", sc=scIdx))
        r = real_ss(self, scIdx)
        EV.append(dict(k="scenario-end", sc=scIdx, ok=bool(r)))
        return r
    pm.Project.scheduleScenario = scheduleScenario


def install_limit():
    """M-limit: Limit.inc / Limit.ok — which counter a slot maps to, and whether it exists."""
    if "limit" in _installed:
        return
    _installed.add("limit")
    from scriptplan.core import limits as lm
    real_inc = lm.Limit.inc

    def inc(self, index, resource=None):
        COUNT["limit.inc"] += 1
        n = len(self._scoreboard)
        try:
            sb = self._idx_to_sb_idx(index)
        except Exception:
            sb = None
        r = real_inc(self, index, resource)
        filtered = self.resource is not None and self.resource != resource
        dropped = (not filtered) and (sb is None or not (0 <= sb < len(self._scoreboard)))   # judged AFTER the call: counters may grow
        after = self._scoreboard[sb] if (sb is not None and 0 <= sb < len(self._scoreboard)) else None
        EV.append(dict(k="limit-inc", lim=id(self), name=self.name, s=index, c=sb, dropped=dropped, value=self.value, after=after, filtered=filtered))
        return r
    lm.Limit.inc = inc
    real_ok = lm.Limit.ok

    def ok(self, index, upper, resource=None):
        COUNT["limit.ok"] += 1
        return real_ok(self, index, upper, resource)
    lm.Limit.ok = ok


def install_all():
    install_ledger()
    install_cursor()
    install_pick()
    install_limit()


def counts():
    return dict(COUNT)


def install_scen():
    """M-scen: at every scenario entry the ledgers and limit counters of that scenario are empty and not shared
    with another scenario's (object identity)."""
    if "scen" in _installed:
        return
    _installed.add("scen")
    from scriptplan.core import project as pm
    real = pm.Project.scheduleScenario   # may already be wrapped by M-pick: wrappers compose

    def scheduleScenario(self, scIdx):
        COUNT["scen-entry"] += 1
        nsc = self.scenarioCount()
        lim_ids = {}
        for coll, kind in ((self.resources, "r"), (self.tasks, "t")):
            for node in coll:
                for k in range(nsc):
                    try:
                        lim = node.get("limits", k)
                    except Exception:
                        lim = None
                    if lim:
                        for one in getattr(lim, "_limits", []):
                            lim_ids.setdefault(id(one), set()).add((kind, node.fullId, k))
                        if k == scIdx:
                            for one in getattr(lim, "_limits", []):
                                COUNT["scen-limit-checked"] += 1
                                if any(c != 0 for c in one._scoreboard):
                                    ONLINE.append(("scen-limit-counter-nonzero", dict(sc=scIdx, node=node.fullId, name=one.name, counters=[c for c in one._scoreboard if c][:5])))
        for lid, users in lim_ids.items():
            scs = {u[2] for u in users}
            if len(scs) > 1:
                ONLINE.append(("scen-limit-object-shared", dict(users=sorted(users)[:4])))
        led_ids = {}
        for r in self.resources:
            if not r.data:
                continue
            for k in range(min(nsc, len(r.data))):
                rs = r.data[k]
                if rs is None:
                    continue
                led_ids.setdefault(id(rs.slotTaskUsage), set()).add(k)
                led_ids.setdefault(id(rs.slotSecondsUsed), set()).add(k)
                if k == scIdx:
                    COUNT["scen-ledger-checked"] += 1
                    if rs.slotTaskUsage or rs.slotSecondsUsed:
                        ONLINE.append(("scen-ledger-not-empty", dict(sc=scIdx, r=r.fullId, n=len(rs.slotTaskUsage))))
        if any(len(v) > 1 for v in led_ids.values()):
            ONLINE.append(("scen-ledger-object-shared", dict(sc=scIdx)))
        return real(self, scIdx)
    pm.Project.scheduleScenario = scheduleScenario
