"""Offline oracles over (model, observed schedule, monitor events).  One function per property clause family.
Each returns a list of violations: dict(prop, clause, detail, mechs).  'mechs' are mechanism keys computed by
vlib/findings.py predicates from the monitors' events (never from random values or case hashes)."""
import collections
from datetime import timedelta

from . import gen, indep

EPS = 1e-6


class Obs:
    """Plain-python snapshot of what the engine produced for one scenario."""

    def __init__(self, p, sc=0):
        self.sc = sc
        self.start = p["start"]
        self.end = p["end"]
        self.T = {}
        self.order = []
        for t in p.tasks:
            self.T[t.fullId] = dict(sch=bool(t.get("scheduled", sc)), start=t.get("start", sc), end=t.get("end", sc),
                                    fwd=t.get("forward", sc), leaf=bool(t.leaf()))
            self.order.append(t.fullId)
        self.led = {}      # local resource id -> slot idx -> [(task fullId, seconds)]
        self.used = {}     # local resource id -> slot idx -> slotSecondsUsed
        self.groups_booked = []
        self.res_leaf = {}
        for r in p.resources:
            rs = r.data[sc] if r.data else None
            self.res_leaf[r.id] = bool(r.leaf())
            if rs is None:
                continue
            d = {}
            for idx, lst in rs.slotTaskUsage.items():
                if lst:
                    d[idx] = [(t.fullId, float(s)) for t, s in lst]
            if d:
                self.led[r.id] = d
                if not r.leaf():
                    self.groups_booked.append(r.id)
            self.used[r.id] = {i: float(v) for i, v in rs.slotSecondsUsed.items()}
        self.per_task = {}  # task fullId -> rid -> idx -> seconds
        for rid, d in self.led.items():
            for idx, lst in d.items():
                for tid, s in lst:
                    x = self.per_task.setdefault(tid, {}).setdefault(rid, {})
                    x[idx] = x.get(idx, 0.0) + s

    def slot_start(self, m, idx):
        return self.start + timedelta(minutes=m["res"] * idx)


def V(prop, clause, detail, mechs=()):
    return dict(prop=prop, clause=clause, detail=detail, mechs=sorted(set(mechs)))


# ---------------------------------------------------------------------------------------------- C01

def portion_interval(m, obs, tid, idx, secs):
    """('full'|'anch'|'free', lo, hi) for the portion of task tid in slot idx (design C01)."""
    L = m["res"] * 60
    a = obs.slot_start(m, idx)
    b = a + timedelta(seconds=L)
    if secs >= L - EPS:
        return "full", a, b
    t = obs.T.get(tid)
    if not t or not t["sch"] or t["start"] is None or t["end"] is None:
        return "free", a, b
    st, en = t["start"], t["end"]
    s_in = a <= st < b
    e_in = a < en <= b
    if s_in and e_in:
        return "anch", st, en
    if s_in:
        return "anch", st, min(b, st + timedelta(seconds=secs))
    if e_in:
        return "anch", max(a, en - timedelta(seconds=secs)), en
    return "free", a, b


def c01(m, obs, mech):
    out = []
    L = m["res"] * 60
    for rid, d in obs.led.items():
        for idx, lst in d.items():
            tot = sum(s for _, s in lst)
            if tot > L + EPS:
                out.append(V("C01", "sum>slot", dict(r=rid, slot=idx, total=tot, L=L, entries=lst), mech.slot(rid, idx)))
            if len(lst) < 2:
                continue
            anch = []
            free = 0.0
            for tid, s in lst:
                kind, lo, hi = portion_interval(m, obs, tid, idx, s)
                if kind == "free":
                    free += s
                else:
                    anch.append((lo, hi, tid))
            anch.sort()
            bad = False
            for (a1, b1, t1), (a2, b2, t2) in zip(anch, anch[1:]):
                if (b1 - a2).total_seconds() > 1.0:
                    out.append(V("C01", "overlap", dict(r=rid, slot=idx, a=(t1, a1, b1), b=(t2, a2, b2)), mech.slot(rid, idx)))
                    bad = True
                    break
            if not bad and free > 0:
                # union of anchored (already pairwise disjoint up to 1 s)
                covered = sum(max(0.0, (hi - lo).total_seconds()) for lo, hi, _ in anch)
                if free > L - covered + 1.0 * (len(anch) + 1):
                    out.append(V("C01", "free-portions-do-not-fit", dict(r=rid, slot=idx, free=free, covered=covered), mech.slot(rid, idx)))
    return out


# ---------------------------------------------------------------------------------------------- C02

def c02(m, obs, mech, cals=None):
    out = []
    L = m["res"] * 60
    cals = cals or indep.calendars(m)
    n_checked = 0
    for rid, d in obs.led.items():
        if rid not in cals:
            continue
        cal = cals[rid]
        for idx, lst in d.items():
            a = obs.slot_start(m, idx)
            st = cal.slot(a)
            for tid, s in lst:
                n_checked += 1
                if s <= 0.5:
                    continue
                kind, lo, hi = portion_interval(m, obs, tid, idx, s)
                if st == "full":
                    continue
                first = cal.minute(a)
                if kind == "full":
                    bad = True
                elif kind == "anch":
                    span = (hi - lo).total_seconds()
                    bad = span - cal.working_seconds(lo, hi) > 1.0 + EPS
                else:
                    bad = cal.working_seconds(a, a + timedelta(seconds=L)) < s - 1.0
                if bad:
                    ms = []
                    if st == "part" and first:
                        ms.append("slot-start-sampling")
                    out.append(V("C02", "booked-outside-working-time",
                                 dict(r=rid, slot=idx, slot_start=a, task=tid, secs=s, slot_status=st, first_minute_working=first,
                                      tz=cal.r.get("tz")), ms + mech.task(tid, rid)))
    return out, n_checked


# ---------------------------------------------------------------------------------------------- C03

def c03(m, obs, mech):
    out = []
    tm = {indep.tid(t["path"]): t for t in m["tasks"]}
    effs = {r["id"]: r["eff"] for r in m["resources"]}
    for tid, mt in tm.items():
        if "effort_min" not in mt:
            continue
        t = obs.T.get(tid)
        if not t or not t["sch"]:
            continue
        usage = obs.per_task.get(tid, {})
        if not usage:
            out.append(V("C03", "scheduled-without-bookings", dict(task=tid), mech.task(tid, None)))
            continue
        want = mt["effort_min"]
        cand_sets = [set(mt["alloc"])] + [{a} for a in mt.get("alt", [])]
        booked = set(usage)
        if mt.get("alt"):
            if booked not in cand_sets:
                out.append(V("C03", "alternatives-not-exactly-one", dict(task=tid, booked=sorted(booked), primary=mt["alloc"], alt=mt["alt"]),
                             ["alternative-list-booked-as-team"] if booked == set(mt["alt"]) and len(booked) > 1 else []))
                continue
        elif booked != set(mt["alloc"]):
            out.append(V("C03", "booked-resources-differ-from-allocation", dict(task=tid, booked=sorted(booked), alloc=mt["alloc"]), mech.task(tid, None)))
            continue
        maps = {rid: {i: round(s, 3) for i, s in sl.items()} for rid, sl in usage.items()}
        if len(maps) > 1:
            vals = list(maps.values())
            if any(v != vals[0] for v in vals[1:]):
                out.append(V("C03", "team-instants-differ", dict(task=tid, maps=maps), mech.task(tid, None) + ["team-partial"]))
        for rid, sl in usage.items():
            eff = effs[rid]
            got = sum(sl.values()) * eff / 60.0
            if abs(got - want) > eff / 60.0 + EPS:
                out.append(V("C03", "effort-mismatch", dict(task=tid, r=rid, booked_effort_min=got, want_min=want, eff=eff), mech.task(tid, rid)))
            # no further slot beyond the effort: without the slot in which the task finished (last in its walking
            # direction) the effort must not have been reached yet
            fin = max(sl) if t["fwd"] is not False else min(sl)
            before_final = (sum(sl.values()) - sl[fin]) * eff / 60.0
            if len(sl) > 1 and before_final >= want - 1e-7:
                out.append(V("C03", "extra-slot-beyond-effort", dict(task=tid, r=rid, final_slot=fin, secs_in_final=sl[fin],
                                                                    effort_before_final_min=before_final, want_min=want),
                             mech.task(tid, rid) + ["float-extra-slot"]))
            if len(usage) > 1:
                break  # team: members compared above, effort counted once
    return out


# ---------------------------------------------------------------------------------------------- C04

def c04(m, obs, mech):
    out = []
    tm = gen.tmap(m)
    n_edges = 0
    for t in m["tasks"]:
        if t["container"]:
            continue
        tid = indep.tid(t["path"])
        o = obs.T.get(tid)
        if not o or not o["sch"] or o["start"] is None:
            continue
        fwd = o["fwd"] is not False
        if fwd and "start" in t:
            continue
        if not fwd and "end" in t:
            continue  # pinned in its own direction
        dated_anc = any("start" in tm[t["path"][:k]] for k in range(1, len(t["path"])))
        for d in gen.all_deps(m, t, tm):
            ptid = indep.tid(d["to"])
            po = obs.T.get(ptid)
            if po is None:
                continue
            if d.get("onstart") and not fwd:
                continue  # not claimed
            n_edges += 1
            if not po["sch"] or po["end"] is None or po["start"] is None:
                # forward: readiness demands every predecessor to be placed first. backward: the successor is
                # placed first by design; a predecessor that later fails has no end to compare with (not claimed).
                if fwd:
                    out.append(V("C04", "scheduled-before-predecessor-was", dict(task=tid, pred=ptid), mech.dep(t, d, obs)))
                continue
            base = po["start"] if d.get("onstart") else po["end"]
            bound = base + timedelta(minutes=d.get("gap_min", 0))
            if o["start"] < bound:
                ms = []
                if dated_anc:
                    ms.append("inherited-container-start-overrides-dependencies")
                out.append(V("C04", "start-before-bound", dict(task=tid, pred=ptid, start=o["start"], bound=bound, gap_min=d.get("gap_min", 0),
                                                                onstart=bool(d.get("onstart")), fwd=fwd, inherited=d not in t.get("deps", [])),
                             ms + mech.dep(t, d, obs)))
    return out, n_edges


# ---------------------------------------------------------------------------------------------- C05

def c05(m, obs, mech):
    out = []
    res = m["res"]
    tm = gen.tmap(m)
    agg = collections.defaultdict(float)   # (scope, kind, period) -> booked seconds
    caps = {}
    n_periods = set()
    for tid, usage in obs.per_task.items():
        path = tuple(tid.split("."))
        t = tm.get(path)
        if t is None:
            continue
        for rid, sl in usage.items():
            scopes = indep.limit_scopes(m, t, rid, tm)
            if not scopes:
                continue
            for idx, secs in sl.items():
                dt = obs.slot_start(m, idx)
                for scope, kind, hrs in scopes:
                    key = (scope, kind, indep.limit_period(kind, dt))
                    agg[key] += secs
                    caps[key] = hrs
    for key, secs in agg.items():
        n_periods.add(key)
        if secs > caps[key] * 3600 + EPS:
            scope, kind, period = key
            first_slot = None
            out.append(V("C05", "limit-exceeded", dict(scope=scope, kind=kind, period=period, booked_h=secs / 3600.0, limit_h=caps[key],
                                                      beyond_declared_end=period_beyond(m, period)), mech.limit(scope, kind, period)))
    return out, len(n_periods)


def declared_end(m):
    return m["start"] + (timedelta(days=m["days"]) if "days" in m else timedelta(weeks=m["weeks"]))


def period_beyond(m, period):
    de = declared_end(m)
    if period[0] == "d":
        from datetime import datetime
        return datetime(period[1], period[2], period[3]) >= de
    iso = de.isocalendar()
    return (period[1], period[2]) > (iso[0], iso[1])


# ---------------------------------------------------------------------------------------------- C06

def c06(m, obs, mech):
    out = []
    L = m["res"] * 60
    Ld = timedelta(seconds=L)
    tm = {indep.tid(t["path"]): t for t in m["tasks"]}
    for tid, mt in tm.items():
        o = obs.T.get(tid)
        if o and not o["sch"] and not mt["container"] and obs.per_task.get(tid):
            # "all work booked for a task lies inside its reported [start, end]": a task reported as NOT scheduled has no
            # interval at all, so nothing may be booked for it (known finding failed-task-leftover: the bookings of an
            # attempt that was given up stay in the ledgers)
            u = obs.per_task[tid]
            out.append(V("C06", "work-booked-for-unscheduled-task", dict(task=tid, resources=sorted(u), slots=sum(len(x) for x in u.values()),
                                                                         seconds=round(sum(sum(x.values()) for x in u.values()), 3)), ["failed-task-leftover"]))
            continue
        if not o or not o["sch"] or mt["container"]:
            continue
        st, en = o["start"], o["end"]
        if st is None or en is None:
            out.append(V("C06", "scheduled-without-dates", dict(task=tid, start=st, end=en), []))
            continue
        if "effort_min" not in mt:
            if st != en:
                out.append(V("C06", "milestone-has-length", dict(task=tid, start=st, end=en), []))
            continue
        usage = obs.per_task.get(tid, {})
        if st > en:
            out.append(V("C06", "start>end", dict(task=tid, start=st, end=en), mech.task(tid, None)))
        elif usage and st == en:
            out.append(V("C06", "zero-length-with-work", dict(task=tid, start=st), mech.task(tid, None)))
        for rid, sl in usage.items():
            idxs = sorted(i for i, s in sl.items() if s > 0.5)
            if not idxs:
                continue
            first, last = idxs[0], idxs[-1]
            s0 = obs.slot_start(m, first)
            e0 = obs.slot_start(m, last) + Ld
            ms = mech.task(tid, rid)
            if not (s0 <= st < s0 + Ld):
                out.append(V("C06", "start-not-in-first-booked-slot", dict(task=tid, r=rid, start=st, first_slot=s0), ms))
            if not (e0 - Ld < en <= e0):
                out.append(V("C06", "end-not-in-last-booked-slot", dict(task=tid, r=rid, end=en, last_slot_end=e0), ms))
            for i in idxs:
                a = obs.slot_start(m, i)
                b = a + Ld
                span = (min(b, en) - max(a, st)).total_seconds()
                if span + 1.0 < sl[i]:
                    out.append(V("C06", "interval-shorter-than-booked-work", dict(task=tid, r=rid, slot=i, span=span, booked=sl[i], start=st, end=en), ms))
                    break
    return out


def c06_milestones(m, obs, mech):
    """milestone start = end = its bound (pin, or max over predecessors of end+gap as an instant)."""
    out = []
    tm = gen.tmap(m)
    succ_map = None
    for t in m["tasks"]:
        if t["container"] or "effort_min" in t:
            continue
        tid = indep.tid(t["path"])
        o = obs.T.get(tid)
        if not o or not o["sch"] or o["start"] is None:
            continue
        if o["fwd"] is False:
            # backward milestone: it happens at its deadline (own end, earliest successor start minus gap,
            # nearest container end, project end)
            if "end" in t:
                bound = t["end"]
            else:
                dl = [obs.end]
                for k in range(len(t["path"]) - 1, 0, -1):
                    if "end" in tm[t["path"][:k]]:
                        dl.append(tm[t["path"][:k]]["end"])     # every enclosing container's deadline binds (the earliest wins)
                ok = True
                if succ_map is None:
                    succ_map = {}
                    for a, lst in gen.leaf_edges(m).items():
                        for b, d, via in lst:
                            succ_map.setdefault(b, []).append((a, d))
                for a_path, d in succ_map.get(t["path"], []):
                    if d.get("onstart"):
                        ok = False
                        break
                    so = obs.T.get(indep.tid(a_path))
                    if not so or not so["sch"] or so["start"] is None:
                        ok = False
                        break
                    dl.append(so["start"] - timedelta(minutes=d.get("gap_min", 0)))
                if not ok or any(dd.get("onstart") for dd in gen.all_deps(m, t, tm)):
                    continue
                bound = min(dl)
            if o["start"] != bound or o["end"] != bound:
                ms = ["alap-milestone-one-slot-before-deadline"] if (o["start"] == o["end"] and o["start"] < bound and (bound - o["start"]) <= timedelta(minutes=m["res"])) else []
                out.append(V("C06", "alap-milestone-not-at-deadline", dict(task=tid, start=o["start"], end=o["end"], deadline=bound), ms))
            continue
        if "start" in t:
            bound = t["start"]
        elif "end" in t:
            continue
        else:
            bound = obs.start
            ok = True
            for k in range(len(t["path"]) - 1, 0, -1):
                if "start" in tm[t["path"][:k]]:
                    bound = max(bound, tm[t["path"][:k]]["start"])
                    break
            for d in gen.all_deps(m, t, tm):
                po = obs.T.get(indep.tid(d["to"]))
                if not po or not po["sch"] or po["end"] is None:
                    ok = False
                    break
                b = (po["start"] if d.get("onstart") else po["end"]) + timedelta(minutes=d.get("gap_min", 0))
                bound = max(bound, b)
            if not ok:
                continue
        if o["start"] != bound or o["end"] != bound:
            ms = []
            if o["start"] == o["end"] and o["start"] < bound and (bound - o["start"]) < timedelta(minutes=m["res"]):
                ms.append("milestone-rounded-to-slot-start")
            out.append(V("C06", "milestone-not-at-bound", dict(task=tid, start=o["start"], end=o["end"], bound=bound), ms))
    return out


# ---------------------------------------------------------------------------------------------- C10

def c10(m, obs, mech):
    out = []
    tm = {indep.tid(t["path"]): t for t in m["tasks"]}
    n = 0
    for tid, mt in tm.items():
        if not mt["container"]:
            continue
        n += 1
        o = obs.T[tid]
        kids = [indep.tid(c) for c in gen.children(m, mt["path"])]
        allk = all(obs.T[k]["sch"] for k in kids)
        if o["sch"] != allk:
            out.append(V("C10", "container-flag", dict(task=tid, scheduled=o["sch"], all_children=allk, kids={k: obs.T[k]["sch"] for k in kids}), []))
        elif o["sch"]:
            ks = [obs.T[k]["start"] for k in kids]
            ke = [obs.T[k]["end"] for k in kids]
            if None in ks or None in ke:
                out.append(V("C10", "scheduled-child-without-dates", dict(task=tid), []))
            elif o["start"] != min(ks) or o["end"] != max(ke):
                out.append(V("C10", "container-dates", dict(task=tid, start=o["start"], end=o["end"], want_start=min(ks), want_end=max(ke)), []))
        if tid in obs.per_task:
            out.append(V("C10", "container-booked", dict(task=tid, usage=obs.per_task[tid]), []))
    for g in obs.groups_booked:
        out.append(V("C10", "group-booked", dict(resource=g), []))
    # a group occupies no resource time in ANY ledger: not in the per-task usage (above) and not in the per-slot
    # "seconds used" mark either (a head reserved for a mid-slot bound before availability was asked)
    for rid, leaf in obs.res_leaf.items():
        if not leaf and rid not in obs.groups_booked:
            used = {i: v for i, v in obs.used.get(rid, {}).items() if v > 1e-9}
            if used:
                out.append(V("C10", "group-slot-marked-used", dict(resource=rid, slots=dict(list(sorted(used.items()))[:4])), []))
    return out, n


# ---------------------------------------------------------------------------------------------- C08

def c08(m, obs, mech, cals=None):
    """idle-slot check. Quantifier: effort tasks with ONE resource, no limit in any scope, no alternatives."""
    out = []
    res = m["res"]
    L = timedelta(minutes=res)
    tm = gen.tmap(m)
    cals = cals or indep.calendars(m)
    edges = gen.leaf_edges(m)
    succ = collections.defaultdict(list)
    for a, lst in edges.items():
        for b, d, via in lst:
            succ[b].append((a, d, via))
    n_tasks = 0
    n_slots = 0
    for t in m["tasks"]:
        if t["container"] or "effort_min" not in t or len(t["alloc"]) != 1:
            continue
        tid = indep.tid(t["path"])
        rid = t["alloc"][0]
        if t.get("alt"):
            # an allocation with alternatives: "its resource" is the candidate that was booked
            bookedon = sorted(obs.per_task.get(tid, {}))
            if len(bookedon) != 1 or bookedon[0] not in ([rid] + list(t["alt"])):
                continue
            rid = bookedon[0]
        if indep.limit_scopes(m, t, rid, tm):
            continue
        o = obs.T.get(tid)
        if not o or not o["sch"] or o["start"] is None or o["end"] is None:
            continue
        cal = cals[rid]
        used = obs.led.get(rid, {})
        if o["fwd"] is not False:
            # bound: pin, else max(project start, nearest dated ancestor, predecessors)
            if "start" in t:
                bound = t["start"]
            else:
                bound = obs.start
                for k in range(len(t["path"]) - 1, 0, -1):
                    if "start" in tm[t["path"][:k]]:
                        bound = max(bound, tm[t["path"][:k]]["start"])
                        break
                ok = True
                for d in gen.all_deps(m, t, tm):
                    po = obs.T.get(indep.tid(d["to"]))
                    if not po or not po["sch"] or po["end"] is None:
                        ok = False
                        break
                    bound = max(bound, (po["start"] if d.get("onstart") else po["end"]) + timedelta(minutes=d.get("gap_min", 0)))
                if not ok:
                    continue
            n_tasks += 1
            # sub-slot clause (seeded change C08-c): the task does not wait INSIDE its first booked slot either.  Its start
            # may lie behind the slot start only as far as its bound or the other tasks with seconds in that slot (their
            # reserved heads included: everything up to the latest end of another task in the slot) explain.
            mine = obs.per_task.get(tid, {}).get(rid, {})
            if mine:
                f = min(mine)
                a = obs.slot_start(m, f)
                b = a + L
                if cal.slot(a) == "full" and a <= o["start"] < b:
                    cover = max(bound, a)
                    for t2, s2 in used.get(f, []):
                        if t2 == tid:
                            continue
                        o2 = obs.T.get(t2)
                        cover = max(cover, b if (not o2 or o2["end"] is None) else min(o2["end"], b))
                    if o["start"] > cover + timedelta(seconds=1):
                        out.append(V("C08", "asap-waits-inside-first-slot", dict(task=tid, r=rid, slot=f, slot_start=a, bound=bound, start=o["start"], explained_until=cover),
                                     mech.task(tid, rid)))
            i0 = -(-int((bound - obs.start).total_seconds()) // (res * 60))
            i1 = int((o["end"] - obs.start).total_seconds()) // (res * 60)
            for idx in range(max(i0, 0), i1):
                if idx in used:
                    continue
                n_slots += 1
                a = obs.slot_start(m, idx)
                if cal.slot(a) == "full":
                    out.append(V("C08", "asap-idle-slot", dict(task=tid, r=rid, slot=idx, slot_start=a, bound=bound, end=o["end"]), mech.task(tid, rid)))
                    break
        else:
            dl = [obs.end]
            kinds = ["project-end"]
            if "end" in t:
                dl.append(t["end"])
                kinds.append("own-end")
            else:
                # the end of every enclosing container is a deadline for everything inside it (the earliest wins)
                for k in range(len(t["path"]) - 1, 0, -1):
                    if "end" in tm[t["path"][:k]]:
                        dl.append(tm[t["path"][:k]]["end"])
                        kinds.append("container-end")
            ok = True
            ms = []
            for a_path, d, via in succ.get(t["path"], []):
                if d.get("onstart"):
                    continue
                so = obs.T.get(indep.tid(a_path))
                if not so or not so["sch"] or so["start"] is None:
                    ok = False
                    break
                dl.append(so["start"] - timedelta(minutes=d.get("gap_min", 0)))
                kinds.append("succ")
                if via != a_path or d["to"] != t["path"]:
                    ms.append("alap-container-edge-ignored")
                if d.get("gap_min"):
                    ms.append("alap-gap-ignored")
            if not ok:
                continue
            deadline = min(dl)
            n_tasks += 1
            if o["end"] > deadline:
                out.append(V("C08", "alap-end-after-deadline", dict(task=tid, end=o["end"], deadline=deadline, kinds=kinds), ms + mech.task(tid, rid)))
                continue
            i0 = -(-int((o["end"] - obs.start).total_seconds()) // (res * 60))
            i1 = int((deadline - obs.start).total_seconds()) // (res * 60)
            for idx in range(max(i0, 0), i1):
                if idx in used:
                    continue
                n_slots += 1
                a = obs.slot_start(m, idx)
                if cal.slot(a) == "full":
                    out.append(V("C08", "alap-idle-slot", dict(task=tid, r=rid, slot=idx, slot_start=a, end=o["end"], deadline=deadline), mech.task(tid, rid)))
                    break
    return out, n_tasks, n_slots
