"""Rebuild the three optional Cython extensions from the working tree's .pyx files.

The in-tree .so files are git-ignored build artefacts and may be stale or absent; checks never trust them.
Builds are cached by content hash under /verif/.build (git-ignored, recreated on demand).
"""
import glob
import hashlib
import os
import shutil
import subprocess
import sys
import sysconfig

from . import common

NAMES = ["scoreboard_cy", "time_utils_cy", "working_hours_cy"]
DIRECTIVES = "language_level=3,boundscheck=False,wraparound=False,cdivision=True,initializedcheck=False"
ASAN_RT = None
for p in glob.glob("/usr/lib/llvm-14/lib/clang/*/lib/linux/libclang_rt.asan-x86_64.so"):
    ASAN_RT = p


def _hash(repo, sanitize):
    h = hashlib.sha1()
    for n in NAMES:
        with open(os.path.join(repo, "scriptplan", "_cython", n + ".pyx"), "rb") as f:
            h.update(f.read())
    h.update(DIRECTIVES.encode())
    h.update(b"san" if sanitize else b"plain")
    return h.hexdigest()[:16]


def build(repo=None, sanitize=False):
    """Returns (dir, error): dir holds <name><EXT_SUFFIX> for the three modules, or None with an error text."""
    repo = repo or common.REPO
    try:
        key = _hash(repo, sanitize)
    except OSError as e:
        return None, "pyx missing: %s" % e
    out = os.path.join(common.BUILD, ("cysan-" if sanitize else "cy-") + key)
    suffix = sysconfig.get_config_var("EXT_SUFFIX")
    if all(os.path.exists(os.path.join(out, n + suffix)) for n in NAMES):
        return out, None
    tmp = out + ".tmp%d" % os.getpid()
    shutil.rmtree(tmp, ignore_errors=True)
    os.makedirs(tmp)
    inc = sysconfig.get_paths()["include"]
    procs = []
    for n in NAMES:
        src = os.path.join(repo, "scriptplan", "_cython", n + ".pyx")
        shutil.copy(src, os.path.join(tmp, n + ".pyx"))
        cc = ["clang-14", "-shared", "-fPIC", "-O1", "-g", "-fno-omit-frame-pointer", "-I", inc]
        if sanitize:
            cc += ["-fsanitize=address,undefined", "-fno-sanitize-recover=undefined" if False else "-fsanitize-recover=all", "-shared-libsan"]
        cmd = ("%s -m cython -3 -X %s %s.pyx -o %s.c && %s %s.c -o %s%s" % (
            sys.executable, DIRECTIVES, n, n, " ".join(cc), n, n, suffix))
        procs.append((n, subprocess.Popen(cmd, shell=True, cwd=tmp, stdout=subprocess.PIPE, stderr=subprocess.STDOUT)))
    errs = []
    for n, p in procs:
        o, _ = p.communicate(timeout=600)
        if p.returncode != 0:
            errs.append("%s: %s" % (n, o.decode(errors="replace")[-1500:]))
    if errs:
        shutil.rmtree(tmp, ignore_errors=True)
        return None, "\n".join(errs)
    for f in glob.glob(os.path.join(tmp, "*.c")):
        os.remove(f)
    try:
        os.rename(tmp, out)
    except OSError:
        shutil.rmtree(tmp, ignore_errors=True)  # lost a race against a parallel build of the same key
    return out, None


def install(mode, cydir=None):
    """Called inside a worker BEFORE scriptplan is imported.
    mode: 'pure' blocks the extensions, 'fresh' loads them from cydir, 'intree' leaves the default."""
    import importlib.machinery
    import importlib.util
    if mode == "pure":
        for n in NAMES:
            sys.modules["scriptplan._cython." + n] = None
        return
    if mode == "fresh":
        # Load the rebuilt extensions BEFORE anything of scriptplan is imported: scriptplan/__init__ pulls in the core
        # modules, which bind the accelerated functions with 'from ... import' at import time.
        assert "scriptplan" not in sys.modules, "cybuild.install('fresh') must run before scriptplan is imported"
        suffix = sysconfig.get_config_var("EXT_SUFFIX")
        loaded = {}
        for n in NAMES:
            name = "scriptplan._cython." + n
            path = os.path.join(cydir, n + suffix)
            loader = importlib.machinery.ExtensionFileLoader(name, path)
            spec = importlib.util.spec_from_loader(name, loader, origin=path)
            m = importlib.util.module_from_spec(spec)
            loader.exec_module(m)
            sys.modules[name] = m
            loaded[n] = m
        import scriptplan._cython as pkg
        for n, m in loaded.items():
            setattr(pkg, n, m)
        # verify what the engine really bound
        from scriptplan.scheduler import scoreboard as sbm
        from scriptplan.core import working_hours as whm, project as pm
        for mod, fn in ((sbm, "idx_to_date_fast"), (whm, "check_working_hours_fast"), (pm, "project_idx_to_date")):
            f = getattr(mod, fn, None)
            origin = getattr(sys.modules.get(getattr(f, "__module__", ""), None), "__file__", "") if f is not None else ""
            if not (mod._USE_CYTHON and origin and os.path.dirname(os.path.abspath(origin)) == os.path.abspath(cydir)):
                raise RuntimeError("fresh extension not bound: %s.%s from %r" % (mod.__name__, fn, origin))


if __name__ == "__main__":
    d, e = build(sanitize="--san" in sys.argv)
    print(d, e)
