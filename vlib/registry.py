"""Per-property configuration: module, level, budgets, evidence rule text."""

BASE_ASSUME = [
    "project clock is Etc/UTC (the engine does not interpret a non-UTC project zone; stated in DESIGN 3.2)",
    "stdlib zoneinfo/tzdata is the trusted base for zone offsets",
    "runtime monitoring: the verdict covers only the executions produced by this run",
]

SCHED = "vlib.props.sched"


def _sched(prop, rule, quick, thorough, minq, mint, deciding, extra_assume=()):
    return dict(module=SCHED, level="exploration", rule=rule,
                quick=dict(cases=quick, budget_s=150, min_nontrivial=minq, case_timeout=30),
                thorough=dict(cases=thorough, budget_s=900, min_nontrivial=mint, case_timeout=60),
                deciding_monitors=deciding, assumptions=BASE_ASSUME + list(extra_assume))


REG = {
    "C01": _sched("C01", "random sub-slot/contention projects (all resolutions 5..60 min, ASAP+ALAP, teams, alternatives) + mechanism-free core "
                  "dialect; non-trivial = at least one (resource,slot) shared by >=2 tasks; distinct = (resolution, mode, multiset of "
                  "<#tasks sharing, #partial portions> slot patterns)", 4000, 80000, 100, 800, ["monitor:book", "shared-slots"]),
    "C02": _sched("C02", "hostile-calendar projects: aligned stratum (any violation is new) and non-aligned stratum (slot-start sampling is the "
                  "only accepted mechanism); non-trivial = booked portions on a resource with own hours/zone/leave; distinct = (resolution, mode, "
                  "zones of booked resources, vacation?, leaves?, cross-midnight?, start month)", 3000, 60000, 100, 600,
                  ["monitor:book", "portions-checked"]),
    "C03": _sched("C03", "sub-slot + core projects, efficiencies {0.5,0.7,0.8,0.9,1,1.25,2}, teams (equal efficiency), alternatives; non-trivial = "
                  "at least one scheduled effort task; distinct = (resolution, mode, set of <fractional effort?, efficiency, team size, has "
                  "alternatives>)", 4000, 80000, 100, 800, ["monitor:book", "tasks-scheduled"]),
    "C04": _sched("C04", "nested DAGs depth<=4 with gaps/on-start/container edges/dated containers, ASAP and ALAP envelope; non-trivial = at "
                  "least one dependency edge checked; distinct = (depth, edge-kind set, dated container?, mode, resolution)", 3000, 60000, 100, 600,
                  ["edges-checked", "monitor:pick"]),
    "C05": _sched("C05", "overrun projects with resource/group/task daily+weekly limits, special start dates (year ends, week 53, Jan 1-3), "
                  "plus ample-horizon core; non-trivial = at least one limited period with bookings; distinct = (limit scopes+kinds, horizon "
                  "extended?, resolution, mode, start near ISO year boundary?, start weekday)", 2500, 50000, 80, 500,
                  ["limit-periods-checked", "monitor:limit.inc"]),
    "C06": _sched("C06", "sub-slot projects with contention, milestones after mid-slot predecessors + core; non-trivial = a scheduled task that "
                  "starts or ends inside a slot; distinct = (resolution, set of <forward?, start mid-slot, end mid-slot, single-slot>)",
                  4000, 80000, 60, 300, ["monitor:book", "tasks-scheduled"]),
    "C08": _sched("C08", "ASAP hostile-calendar (cross-midnight only on mon-sun), ALAP with explicit-end anchors, core; quantifier: effort tasks "
                  "with one unlimited resource; non-trivial = at least one empty slot examined between bound and end; distinct = (mode, "
                  "resolution, #empty slots bucket, #tasks, shifts?, zones?)", 3000, 60000, 100, 600, ["tasks-checked", "empty-slots-examined"]),
    "C10": _sched("C10", "task trees depth<=5 incl. milestone-only containers and unschedulable leaves; non-trivial = at least one container; "
                  "distinct = (depth, #containers, any unscheduled leaf?, any scheduled leaf?, mode)", 3000, 60000, 40, 150,
                  ["containers-checked", "monitor:pick"]),
}


def get(prop):
    return REG[prop]

NOT_APPLICABLE = {}
