"""Per-property configuration: module, level, budgets, evidence rule text."""

BASE_ASSUME = [
    "project clock is Etc/UTC (the engine does not interpret a non-UTC project zone; stated in DESIGN 3.2)",
    "stdlib zoneinfo/tzdata is the trusted base for zone offsets",
    "runtime monitoring: the verdict covers only the executions produced by this run",
]

SCHED = "vlib.props.sched"


def _sched(prop, rule, quick, thorough, minq, mint, deciding, extra_assume=()):
    return dict(module=SCHED, level="exploration", rule=rule,
                quick=dict(cases=quick, budget_s=150, min_nontrivial=minq, case_timeout=30),
                thorough=dict(cases=thorough, budget_s=900, min_nontrivial=mint, case_timeout=60),
                deciding_monitors=deciding, assumptions=BASE_ASSUME + list(extra_assume))


MICRO = ("micro-universe: every project of 2-3 sub-slot tasks (efforts 10..90 min) on ONE resource x every labelled DAG x gap {0,15min} x "
         "ASAP/ALAP x efficiency {1,0.5} x priority order (109,760 projects; complete in thorough, seeded 1/8 slice in quick) + ")

REG = {
    "C01": _sched("C01", MICRO + "random sub-slot/contention projects (all resolutions 5..60 min, ASAP+ALAP, teams, alternatives) + mechanism-free core "
                  "dialect; non-trivial = at least one (resource,slot) shared by >=2 tasks; distinct = (resolution, mode, set of "
                  "<#tasks sharing, portion kinds full/anchored/free, team involved?, directions> slot patterns, #shared slots)", 6000, 120000, 100, 300, ["monitor:book", "shared-slots"]),
    "C02": _sched("C02", "hostile-calendar projects: aligned stratum (any violation is new) and non-aligned stratum (slot-start sampling is the "
                  "only accepted mechanism); non-trivial = booked portions on a resource with own hours/zone/leave; distinct = (resolution, mode, "
                  "zones of booked resources, vacation?, leaves?, cross-midnight?, start month)", 9000, 100000, 100, 600,
                  ["monitor:book", "portions-checked"]),
    "C03": _sched("C03", MICRO + "sub-slot + core projects, efficiencies {0.5,0.7,0.8,0.9,1,1.25,2}, teams (equal efficiency), alternatives; non-trivial = "
                  "at least one scheduled effort task; distinct = (resolution, mode, set of <fractional effort?, efficiency, team size, has "
                  "alternatives>)", 6000, 120000, 100, 800, ["monitor:book", "tasks-scheduled"]),
    "C04": _sched("C04", "nested DAGs depth<=4 with gaps/on-start/container edges/dated containers, ASAP and ALAP envelope; non-trivial = at "
                  "least one dependency edge checked; distinct = (depth, edge-kind set, dated container?, mode, resolution)", 9000, 100000, 100, 600,
                  ["edges-checked", "monitor:pick"]),
    "C05": _sched("C05", "overrun projects with resource/group/task daily+weekly limits, special start dates (year ends, week 53, Jan 1-3), "
                  "plus ample-horizon core; non-trivial = at least one limited period with bookings; distinct = (limit scopes+kinds, horizon "
                  "extended?, resolution, mode, start near ISO year boundary?, start weekday)", 8000, 90000, 80, 500,
                  ["limit-periods-checked", "monitor:limit.inc"]),
    "C06": _sched("C06", MICRO + "sub-slot projects with contention, milestones after mid-slot predecessors + core; non-trivial = a scheduled task that "
                  "starts or ends inside a slot; distinct = (resolution, set of <forward?, start mid-slot, end mid-slot, single-slot>)",
                  6000, 120000, 60, 300, ["monitor:book", "tasks-scheduled"]),
    "C08": _sched("C08", "ASAP hostile-calendar (cross-midnight only on mon-sun), ALAP with explicit-end anchors, core; quantifier: effort tasks "
                  "with one unlimited resource; non-trivial = at least one empty slot examined between bound and end; distinct = (mode, "
                  "resolution, #empty slots bucket, #tasks, shifts?, zones?)", 9000, 100000, 100, 600, ["tasks-checked", "empty-slots-examined"]),
    "C10": _sched("C10", "task trees depth<=5 incl. milestone-only containers and unschedulable leaves; non-trivial = at least one container; "
                  "distinct = (depth, #containers, any unscheduled leaf?, any scheduled leaf?, mode)", 8000, 90000, 40, 90,
                  ["containers-checked", "monitor:pick"]),
    "C07": dict(module="vlib.props.c07", level="exploration",
                rule="(a) every project of the small universe (<=3 leaf tasks x effort {1,2} slots x priority {low,high} x every labelled DAG x "
                     "allocation among <=2 resources x calendar {default, half-day shift, one leave day} x {flat, one container} x {no limit, dailymax 2h} x "
                     "{no pin, last task pinned}; 155,904 projects): complete in "
                     "thorough, seeded 1/12 slice in quick; (b) random core-dialect projects (all resolutions, DAGs, priorities, gaps, pins, "
                     "leaves, limits incl. task limits, teams, zones, nested containers). Every case: engine dates == reference list scheduler "
                     "(pinned milestones count as placed from the start) and M-pick order law. distinct = (dialect, resolution, #leaves, depth, team sizes, "
                     "shifts?, limits?, zones?, #dependent tasks, picks reordered vs declaration?, contention?)",
                quick=dict(cases=3000, budget_s=200, min_nontrivial=150, case_timeout=30),
                thorough=dict(cases=60000, budget_s=1200, min_nontrivial=800, case_timeout=60),
                deciding_monitors=["monitor:pick", "tasks-compared"],
                assumptions=BASE_ASSUME + ["core dialect only (slot-aligned calendars, whole-slot efforts); cases where the reference itself "
                                           "needs more horizon than the engine allotted are skipped and counted",
                                           "pinned milestones count as placed before the priority loop (they need nobody and their date is given)"]),
    "C09": dict(module="vlib.props.meta", level="exploration",
                rule="pairs (P, P + intruder): intruder = leaf with strictly lowest priority (own, or inherited from a container two levels "
                     "up), random effort/resource/pin/position, nothing depends on it, in forward projects it may depend on others (also on "
                     "task-level ALAP tasks); precondition 'same horizon' is observed from project end in both runs; non-trivial = the intruder "
                     "books a resource-day that P's tasks use; distinct = (mode, resolution, position first/last, pinned?, >1 shared day, limits?, "
                     "#resources); plus the two-task corollary",
                quick=dict(cases=5000, budget_s=150, min_nontrivial=40, case_timeout=40),
                thorough=dict(cases=40000, budget_s=900, min_nontrivial=150, case_timeout=60),
                deciding_monitors=["pairs", "monitor:pick"],
                assumptions=BASE_ASSUME + ["intruders name predecessors in forward projects only: in a backward project a task that names a "
                                           "predecessor is placed first and in front of it, so something does depend on it there",
                                           "intruders are plain ASAP tasks without maxgapduration / scheduling statements of their own"]),
    "C14": dict(module="vlib.props.meta", level="exploration",
                rule="pairs (model, model with every date + k weeks), k in {1,4,26,52,53,104,157,209,313} or aimed at Jan 1-3 2021/2027/2033, "
                     "Dec 31, Feb 29; UTC projects without resource zones; durations in days/weeks; distinct = (k class, what the shifted window "
                     "straddles, limits?, mode, resolution, start weekday)",
                quick=dict(cases=5000, budget_s=150, min_nontrivial=100, case_timeout=40),
                thorough=dict(cases=40000, budget_s=900, min_nontrivial=500, case_timeout=60),
                deciding_monitors=["pairs"], assumptions=BASE_ASSUME + ["resources carry no time zone (a DST zone legitimately breaks week-shift invariance)"]),
    "C15": dict(module="vlib.props.meta", level="exploration",
                rule="pairs (text, rewritten text) under: consistent renaming (prefix ids, local ids reused across containers and at root, "
                     "keyword-like ids), relative/absolute references, depends<->precedes (options carried), shift reference<->inline hours, "
                     "comments/whitespace, macros with and without arguments; singly and composed; distinct = (rewrite set, mode, depth, gaps?, "
                     "shifts?, container deps?)",
                quick=dict(cases=5000, budget_s=150, min_nontrivial=60, case_timeout=40),
                thorough=dict(cases=40000, budget_s=900, min_nontrivial=200, case_timeout=60),
                deciding_monitors=["pairs"], assumptions=BASE_ASSUME),
    "C16": dict(module="vlib.props.meta", level="exploration",
                rule="projects with 1-5 scenarios (nesting <= 3) and scenario-specific effort/start overrides: each scenario vs the single-scenario "
                     "project with its effective attributes (a differing project end is the known finding horizon-extension-from-scenario-0), scenario without overrides vs parent, M-scen at every scenario "
                     "entry (ledgers empty, limit counters zero, no object shared between scenarios); distinct = (#scenarios, nested count, "
                     "#overrides, resolution, limits?, horizon extended?)",
                quick=dict(cases=2400, budget_s=150, min_nontrivial=40, case_timeout=60),
                thorough=dict(cases=20000, budget_s=900, min_nontrivial=150, case_timeout=90),
                deciding_monitors=["scenario-comparisons", "monitor:scen-entry"], assumptions=BASE_ASSUME),
    "C13": dict(module="vlib.props.native", level="exploration",
                rule="(a) grid: every accelerated function with both implementations (extensions rebuilt from the tree's .pyx): onShift on every "
                     "minute of the week (every 3rd in quick) x 9 interval sets x 7 day sets x {no zone, a zone}; get_daily_hours; Scoreboard and "
                     "Project idx<->date over bounded windows x resolutions x offsets incl. out-of-range; collectIntervals on every pattern up to "
                     "length 8 (quick) / 10 (thorough) x windows x minimum lengths; (b) M-shadow: every accelerated call made while scheduling real "
                     "projects executed twice; (c) whole-project fingerprints (dates + ledgers) pure vs fresh build (vs in-tree .so: note only); "
                     "(d) the grid and projects under an ASan+UBSan build. distinct = grid cells + distinct project fingerprints",
                quick=dict(projects=160, budget_s=300, min_nontrivial=100), thorough=dict(projects=2400, budget_s=1500, min_nontrivial=400),
                deciding_monitors=["grid-comparisons", "shadow-calls", "fingerprint-comparisons"],
                assumptions=BASE_ASSUME + ["extensions are rebuilt from the working tree's .pyx with the compiler directives of setup.py; the "
                                           "git-ignored in-tree .so files are compared as a note only"]),
    "C17": dict(module="vlib.props.native", level="exploration",
                rule="exhaustive inside the grid: resolutions 1..60 min (all 60 in both tiers) x 4 start offsets (2 in quick) x windows up to 3 days: "
                     "size law, strict monotonicity, index(time(i))=i, floor-inverse at +1s/+res/2/+res-1 for EVERY index, rejection/clamping of "
                     "out-of-range indices and instants, for Scoreboard and Project conversions, both implementations; collectIntervals against a "
                     "brute-force reference on EVERY pattern up to length 9 (quick) / 12 (thorough) x every query window x minimum lengths 0..3; the "
                     "tables of 420 REAL projects (every resolution x 5 project lengths, quick: 3-4 lengths) - size formula = project table = resource "
                     "tables = ceil+1, last slot >= end, round trip",
                quick=dict(cases=1, budget_s=300, min_nontrivial=50), thorough=dict(cases=1, budget_s=1500, min_nontrivial=200),
                deciding_monitors=["law-evaluations", "collect-evaluations"], ext=["fresh"],
                assumptions=["grid bounds as stated in 'rule'; outside them nothing is claimed",
                             "interval scanning works on whole slots as in TaskJuggler: a query window is the slots from index(start) to index(end), "
                             "the minimum length is floor(minDuration / resolution) slots (at least 1), results are slot-aligned",
                             "the last table index (the slot that starts at the window end) is an end marker and never part of a run"]),
    "C11": dict(module="vlib.props.c11", level="fault_enumeration",
                rule="input classes: valid random (6 dialects), dependency cycles + self-dependencies, bounds/pins/deadlines/gaps past the project "
                     "end or before its start, resources that never work, boundary efforts (0, 1min, 150000h, 3y ...), unknown resources/tasks, empty "
                     "bodies, zero/odd project durations and timing resolutions, 1-40 leaves on one resource, many leave lines, scenarios x group "
                     "limits, repository fixtures, gaplength/maxgapduration dependencies, macro definitions (nested, with arguments, undefined, self- and "
                     "mutually recursive), leaves/vacations reaching outside the window, contradictory or out-of-horizon pins, random derivations of the repository's own lark grammar (whole files and single statements "
                     "embedded in a valid project), and token-level "
                     "corruptions (delete/duplicate/swap/truncate/boundary literal) of these; "
                     "distinct = (class, outcome, exception type+site | unscheduled?, warned?, #leaves, #scenarios)",
                quick=dict(cases=2400, budget_s=200, min_nontrivial=60, case_timeout=60),
                thorough=dict(cases=60000, budget_s=1200, min_nontrivial=150, case_timeout=90),
                deciding_monitors=["monitor:pick", "steps", "outcome:returned", "outcome:rejected"],
                params=dict(step_cap=40000000, step_base=2000000, step_ratio=60.0), timeouts_ok=False,
                assumptions=["termination is restated as bounded progress in logical steps (sys.monitoring PY_START events): hard cap 4e7 per case while "
                             "running, and for returned projects steps <= 2e6 + 3000 x input bytes + 60 x slots x (resources + leaves + 1) x scenarios "
                             "(several times the largest ratio observed on the repaired tree, reported in the evidence); cursor moves per task <= "
                             "#slots + 2, picks <= #leaves; the wall-clock alarm per case is a watchdog whose firing is inconclusive",
                             "parse rejection = lark error or ValueError (unwrapped from lark's VisitError); any other exception incl. SystemExit "
                             "is an internal error"]),
    "C12": dict(module="vlib.props.c12", level="exploration",
                rule="pool of texts (6 dialects, scenarios, own reports, fixtures, and failing texts: syntax error, unknown resource, truncated); "
                     "reference = each text in a fresh interpreter under PYTHONHASHSEED 0, 1 and random; histories = one interpreter per history "
                     "running 2..N random operations (parse+schedule, parse(schedule=False)+schedule(), schedule() again, report generation twice, "
                     "re-parse of the same text) over the pool; after EVERY operation the fingerprint (dates of all scenarios, ledgers, report "
                     "cells) must equal the fresh one; distinct = (previous op, op, failing text?, text size class)",
                quick=dict(pool=40, histories=160, maxlen=14, min_nontrivial=40), thorough=dict(pool=120, histories=4000, maxlen=30, min_nontrivial=80),
                deciding_monitors=["history-comparisons", "fresh-comparisons"],
                assumptions=BASE_ASSUME + ["texts avoid ${now}/${today} (wall-clock by definition)"]),
    "C19": dict(module="vlib.props.cli", level="fault_enumeration", engine="cli-process-harness",
                technique="runtime monitoring of the real CLI processes: stdout/stderr/exit status per invocation vs the API result for the same bytes",
                rule="generated projects with 0-3 own reports (json/csv/both) x {file, '-', implicit stdin} x {json, csv}, invocations with own "
                     "JSON reports repeated; bad-input classes {missing, directory, empty file, blank/empty stdin, syntax error (file+stdin), "
                     "truncated, invalid report file name, undecodable bytes} x both formats; byte-exactness on CRLF / BOM / non-ASCII input; "
                     "distinct = (#own reports, all scheduled?, rejected by API?, mode, #tasks) + (bad class, format, exit status)",
                quick=dict(projects=24, min_nontrivial=20), thorough=dict(projects=400, min_nontrivial=60),
                deciding_monitors=["invocations", "bad-input-invocations", "api-projects"],
                assumptions=["/venv/bin/plan with PYTHONPATH=/repo is the CLI under test", "for a project with unschedulable tasks either (0 + full report with "
                             "empty dates) or (2 + empty stdout) is accepted, identically for file and stdin; undecodable input may exit 1 or 2",
                             "permission-denied cannot be produced as root; -o/--force are not in the property"]),
    "C20": dict(module="vlib.props.cli", level="fault_enumeration", engine="cli-process-harness",
                technique="runtime monitoring: strace-recorded create/unlink/mkdir/rmdir/rename histories of concurrent real CLI processes with injected "
                          "delays, directory snapshots, solitary-run reference bytes, failpoints via sitecustomize, SIGINT",
                rule="rounds of N concurrent `plan report` processes in one cwd and one TMPDIR (same file / different files / stdin, both formats, "
                     "~20% failing inputs) under strace with delay injection on mutating calls; every failpoint (site x nth x exception type incl. "
                     "SystemExit/KeyboardInterrupt/MemoryError) and SIGINT at varied instants; distinct = distinct orders of (process, create/remove) "
                     "events in the merged traces + (failpoint site, exception, exit status, leftovers?)",
                quick=dict(rounds=[2, 8, 16, 32], failpoints=48, sigints=18, badouts=24, min_nontrivial=25, failing_share=0.2),
                thorough=dict(rounds=[2, 8, 32, 64, 128, 128, 32, 16, 8, 100, 48, 24], failpoints=400, sigints=60, badouts=200, min_nontrivial=80, failing_share=0.25),
                deciding_monitors=["concurrent-processes", "fs-events", "failpoint-runs", "solitary-runs"],
                assumptions=["cleanup after SIGTERM/SIGKILL is not demanded (no program can); behaviour with -o is not in the property",
                             "interleavings are sampled (delay injection varies them), not enumerated"]),
    "C18": dict(module="vlib.props.c18", level="exploration",
                rule="scheduled projects of 5 dialects (rates on resources, odd task names) x 1-3 random taskreport definitions: column subsets and "
                     "permutations of {id,name,start,end,effort,priority,cost} with optional titles, 8 time formats (report and project level), "
                     "leaftasksonly true/false/absent, formats json/csv/both; each report generated 3x + written to files; distinct = (columns, "
                     "report time format, project time format, leaf flag, formats, any unscheduled task?, titles?)",
                quick=dict(cases=5000, budget_s=150, min_nontrivial=150, case_timeout=40),
                thorough=dict(cases=40000, budget_s=900, min_nontrivial=800, case_timeout=60),
                deciding_monitors=["cells-checked", "monitor:report.generate_intermediate_format", "json-csv-comparisons"],
                assumptions=BASE_ASSUME + ["hidetask/hideresource/sorting are not in the property's quantifier; the rendering of an inherited priority "
                                           "is not claimed"]),
}


def get(prop):
    return REG[prop]

NOT_APPLICABLE = {}
